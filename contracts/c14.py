r"""C14 -- model parameters form a consistent state independent of how it was reached.

view(model) = every private attribute (dim, raw variance, length scale, anisotropy, angles,
nugget, rescale, flags, optional arguments, bounds).  For each public mutator, executed on
the real class with symbolic old state and symbolic new value:

  accepted  =>  new value inside its documented bound  /\  Inv(new)  /\  frame (only the
                documented components change)  /\  view(new) = view(constructor(values))
  rejected  =>  new value outside its bound  /\  view unchanged        ("always rejected")

The old state is the image of the constructor on arbitrary in-bound arguments; since every
mutator maps constructor images to constructor images, all finite histories are covered by
induction.  Bounds are the documented ones (var, len_scale, anis > 0; nugget >= 0) and, for
optional arguments, what the class declares for the *current* dimension.
"""
import warnings

import numpy as np

import gstools as gs
from gsvc.contract import contract
from gsvc.symrun import is_sym

P = "C14"

CLASSES = ["Gaussian", "Exponential", "Stable", "Matern", "Integral", "Rational", "Cubic",
           "Linear", "Circular", "Spherical", "HyperSpherical", "SuperSpherical", "JBessel",
           "TPLGaussian", "TPLExponential", "TPLStable", "TPLSimple"]
REPR = ["Gaussian", "Stable", "SuperSpherical", "TPLGaussian"]   # all ops; others: core ops


def configs(classes, dims=(1, 2, 3, 4)):
    out = []
    for c in classes:
        for d in dims:
            out.append({"cls": c, "dim": d, "latlon": False, "temporal": False})
        for d in dims:
            if d >= 2:
                out.append({"cls": c, "dim": d, "latlon": False, "temporal": True})
        out.append({"cls": c, "dim": 3, "latlon": True, "temporal": False})
        out.append({"cls": c, "dim": 4, "latlon": True, "temporal": True})
    return out


def _quiet(f, *a, **k):
    with warnings.catch_warnings():
        warnings.simplefilter("ignore")
        return f(*a, **k)


def opt_info(cls, dim, latlon, temporal):
    """names and declared bounds of optional arguments for this class in this dimension"""
    m = _quiet(getattr(gs, cls), dim=dim, latlon=latlon, temporal=temporal)
    return {k: list(v) for k, v in m.default_opt_arg_bounds().items()}, m.dim


def in_bound(ctx, x, bnd):
    lo, hi = bnd[0], bnd[1]
    typ = bnd[2] if len(bnd) == 3 else "cc"
    cs = []
    if lo != -np.inf:
        cs.append(ctx.ge(x, lo) if typ[0] == "c" else ctx.gt(x, lo))
    if hi != np.inf:
        cs.append(ctx.le(x, hi) if typ[1] == "c" else ctx.lt(x, hi))
    return ctx.And(*cs)


def sym_args(ctx, cls, dim, latlon, temporal, tag="", constrain=True, interior=False):
    """symbolic constructor arguments; with constrain=True they are required to be in bounds"""
    ob, mdim = opt_info(cls, dim, latlon, temporal)
    na = mdim * (mdim - 1) // 2
    a = {
        "var": ctx.real(tag + "var", pos=True),
        "len_scale": ctx.real(tag + "len", pos=True),
        "nugget": ctx.real(tag + "nug", nonneg=True),
        "anis": ctx.reals(tag + "anis", mdim - 1, pos=True),
        "angles": ctx.reals(tag + "ang", na, angle=True),
        "rescale": ctx.real(tag + "resc", pos=True),
    }
    opt = {}
    for k, b in ob.items():
        lo = b[0] if b[0] != -np.inf else -5.0
        hi = b[1] if b[1] != np.inf else lo + 5.0
        if interior:
            opt[k] = ctx.real(tag + k, lo=lo + 0.1 * (hi - lo), hi=hi - 0.1 * (hi - lo))
        else:
            opt[k] = ctx.real(tag + k, lo=lo + 1e-6 * (hi - lo), hi=hi - 1e-6 * (hi - lo), edge=True)
    if constrain:
        ctx.require(ctx.gt(a["var"], 0))
        ctx.require(ctx.gt(a["len_scale"], 0))
        ctx.require(ctx.ge(a["nugget"], 0))
        ctx.require(ctx.gt(a["rescale"], 0))
        for r in a["anis"]:
            ctx.require(ctx.gt(r, 0))
        for k, b in ob.items():
            ctx.require(in_bound(ctx, opt[k], b))
    return a, opt, ob, mdim


CLOSED_ISCALE = ("Gaussian", "Exponential", "Stable", "Matern", "Integral", "Rational")


# classes whose normalised correlation is evaluated at a probe lag before and after every operation (a value
# cached at first evaluation must not survive a dimension / parameter change)
COR_PROBE = ("Gaussian", "Exponential", "Stable", "Rational", "Spherical", "HyperSpherical", "SuperSpherical", "JBessel",
             "TPLSimple")
PROBE_LAG = 0.375


def _probe():
    from gsvc import symrun as _sr
    return _sr.symarr([PROBE_LAG]) if _sr.symbolic_active() else np.array([PROBE_LAG])


def build(cls, dim, latlon, temporal, a, opt, warm=True):
    m = _quiet(getattr(gs, cls), dim=dim, var=a["var"], len_scale=a["len_scale"],
               nugget=a["nugget"], anis=list(a["anis"]), angles=list(a["angles"]),
               rescale=a["rescale"], latlon=latlon, temporal=temporal, **opt)
    if warm:
        # read every lazily computed / cached derived quantity once BEFORE the operation under
        # contract, so that a stale cache cannot hide behind a first access
        _ = (m.sill, m.len_scale_vec, m.len_rescaled, m.spatial_dim, m.field_dim)
        if cls in CLOSED_ISCALE and not (cls == "Rational"):
            _ = m.integral_scale
        if cls in COR_PROBE:
            _ = m.cor(_probe())
    return m


def derived_eq(ctx, m, cls, latlon, temporal):
    """derived quantities reported by `m` equal those of a model constructed directly with the
    values `m` now reports"""
    f = fresh_like(m, cls, latlon, temporal)
    cs = [ctx.eq(m.sill, f.sill), ctx.eq(m.len_scale_vec, f.len_scale_vec), ctx.eq(m.len_rescaled, f.len_rescaled),
          m.field_dim == f.field_dim, m.spatial_dim == f.spatial_dim]
    if cls in CLOSED_ISCALE and cls != "Rational":
        cs.append(ctx.eq(m.integral_scale, f.integral_scale))
        cs.append(ctx.eq(m.integral_scale_vec, f.integral_scale_vec))
    if cls in COR_PROBE:
        cs.append(ctx.eq(m.cor(_probe())[0], f.cor(_probe())[0]))
    return ctx.And(*cs)


SKIP = ("_sft", "_integral_scale", "_prec")


def view(m):
    return {k: v for k, v in m.__dict__.items() if k not in SKIP}


def _concrete_eq(x, y):
    try:
        if isinstance(x, np.ndarray) or isinstance(y, np.ndarray):
            return np.shape(x) == np.shape(y) and bool(np.all(np.asarray(x) == np.asarray(y)))
        return bool(x == y)
    except Exception:
        return False


def _numeric(x):
    if is_sym(x):
        return True
    if isinstance(x, (bool, str, dict, type(None))):
        return False
    if isinstance(x, (int, float, np.generic)):
        return True
    if isinstance(x, np.ndarray):
        return x.dtype != object or is_sym(x) or x.size == 0 or all(
            isinstance(v, (int, float)) for v in x.ravel().tolist())
    return False


def view_eq(ctx, v1, v2, only=None, skip=()):
    """conjunction: same keys, equal values"""
    keys = sorted(set(v1) | set(v2))
    cs = []
    for k in keys:
        if only is not None and k not in only:
            continue
        if k in skip:
            continue
        if k not in v1 or k not in v2:
            cs.append(False)
            continue
        x, y = v1[k], v2[k]
        if _numeric(x) and _numeric(y) and np.shape(x) == np.shape(y):
            if np.size(x):
                cs.append(ctx.eq(x, y))
        else:
            cs.append(_concrete_eq(x, y))
    return ctx.And(*cs)


def inv(ctx, m, cls, latlon, temporal, with_opt=True):
    """representation invariant, written from the property statement"""
    d = m.dim
    na = d * (d - 1) // 2
    cs = [np.shape(m.anis) == (d - 1,), np.shape(m.angles) == (na,),
          m._sft.ndim == d,        # the numerical (Hankel) spectrum is computed in the model dimension
          ctx.gt(m.var, 0), ctx.gt(m.len_scale, 0), ctx.ge(m.nugget, 0),
          ctx.eq(m.sill, m.var + m.nugget),
          m.field_dim == (2 + int(temporal) if latlon else d),
          m.spatial_dim == (2 if latlon else d - int(temporal)),
          np.shape(m.len_scale_vec) == (d,)]
    for r in m.anis:
        cs.append(ctx.gt(r, 0))
    lv = m.len_scale_vec
    cs.append(ctx.eq(lv[0], m.len_scale))
    for i in range(1, d):
        cs.append(ctx.eq(lv[i], m.len_scale * m.anis[i - 1]))
    if latlon:
        cs.append(d == 3 + int(temporal))
        for r in m.anis[:2]:
            cs.append(ctx.eq(r, 1))
        for t in m.angles:
            cs.append(ctx.eq(t, 0))
    elif temporal:
        ns = (d - 1) * (d - 2) // 2
        for t in m.angles[ns:]:
            cs.append(ctx.eq(t, 0))
    # optional arguments inside the bound the class declares for the current dimension
    if with_opt:
        cs.append(opt_in_bounds(ctx, m))
    return ctx.And(*cs)


def opt_in_bounds(ctx, m):
    return ctx.And(*[in_bound(ctx, getattr(m, k), list(b))
                     for k, b in m.default_opt_arg_bounds().items()])


def fresh_like(m, cls, latlon, temporal):
    """a model constructed directly with the values `m` now reports"""
    opt = {k: getattr(m, k) for k in m.opt_arg}
    return _quiet(getattr(gs, cls), dim=m.dim, var=m.var, len_scale=m.len_scale,
                  nugget=m.nugget, anis=list(m.anis), angles=list(m.angles),
                  rescale=m.rescale, latlon=latlon, temporal=temporal,
                  geo_scale=m.geo_scale, **opt)


FN_BASE = ["covmodel/base.py:CovModel.__init__", "covmodel/tools.py:set_len_anis",
           "covmodel/tools.py:set_model_angles", "covmodel/tools.py:check_arg_bounds",
           "covmodel/tools.py:check_arg_in_bounds", "covmodel/tools.py:set_dim",
           "covmodel/tools.py:set_opt_args", "covmodel/tools.py:set_arg_bounds"]


# ---------------------------------------------------------------------------------------
@contract(P, "CovModel.__init__/accepts-iff-in-bounds", params=configs(CLASSES),
          functions=FN_BASE)
def ctor(ctx, cls, dim, latlon, temporal):
    a, opt, ob, mdim = sym_args(ctx, cls, dim, latlon, temporal, constrain=False)
    ctx.require(ctx.gt(a["rescale"], 0))
    ok = ctx.And(ctx.gt(a["var"], 0), ctx.gt(a["len_scale"], 0), ctx.ge(a["nugget"], 0),
                 *([ctx.gt(r, 0) for r in a["anis"]] + [in_bound(ctx, opt[k], b) for k, b in ob.items()]))
    try:
        m = build(cls, dim, latlon, temporal, a, opt)
    except ValueError:
        ctx.ensure("rejected=>out-of-bounds", ctx.Not(ok))
        return
    ctx.ensure("accepted=>in-bounds", ok)
    ctx.ensure("inv", inv(ctx, m, cls, latlon, temporal))
    ctx.ensure("values-stored", ctx.And(
        ctx.eq(m.var, a["var"]), ctx.eq(m.len_scale, a["len_scale"]), ctx.eq(m.nugget, a["nugget"]),
        ctx.eq(m.rescale, a["rescale"]), *[ctx.eq(getattr(m, k), v) for k, v in opt.items()]))
    exp_anis = [1.0, 1.0] + list(a["anis"][2:]) if latlon else list(a["anis"])
    ctx.ensure("anis-stored", ctx.eq(m.anis, np.array(exp_anis, dtype=object)) if mdim > 1 else ctx.true())
    if latlon:
        exp_ang = [0.0] * len(a["angles"])
    elif temporal:
        ns = (mdim - 1) * (mdim - 2) // 2
        exp_ang = list(a["angles"][:ns]) + [0.0] * (len(a["angles"]) - ns)
    else:
        exp_ang = list(a["angles"])
    ctx.ensure("angles-stored", ctx.eq(m.angles, np.array(exp_ang, dtype=object)) if exp_ang else ctx.true())


def _setter_contract(name, attr, bound, classes):
    """scalar parameter setter: var / nugget"""

    @contract(P, "CovModel.%s.setter/state" % name, params=configs(classes),
              functions=["covmodel/base.py:CovModel.%s" % name, "covmodel/tools.py:check_arg_bounds"])
    def c(ctx, cls, dim, latlon, temporal):
        a, opt, ob, mdim = sym_args(ctx, cls, dim, latlon, temporal)
        m = build(cls, dim, latlon, temporal, a, opt)
        old = view(m)
        x = ctx.real("x")
        ok = in_bound(ctx, x, bound)
        try:
            setattr(m, name, x)
        except ValueError:
            ctx.ensure("rejected=>out-of-bounds", ctx.Not(ok))
            ctx.ensure("rejected=>state-unchanged", view_eq(ctx, view(m), old))
            return
        ctx.ensure("accepted=>in-bounds", ok)
        ctx.ensure("value-set", ctx.eq(getattr(m, name), x))
        ctx.ensure("frame", view_eq(ctx, view(m), old, skip=(attr,)))
        ctx.ensure("inv", inv(ctx, m, cls, latlon, temporal))
        ctx.ensure("equals-fresh-model", view_eq(ctx, view(m), view(fresh_like(m, cls, latlon, temporal))))
        ctx.ensure("derived-quantities=fresh-model", derived_eq(ctx, m, cls, latlon, temporal))
    return c


_setter_contract("var", "_var", [0.0, np.inf, "oo"], CLASSES)
_setter_contract("nugget", "_nugget", [0.0, np.inf, "co"], CLASSES)


@contract(P, "CovModel.len_scale.setter[scalar]/state", params=configs(CLASSES),
          functions=["covmodel/base.py:CovModel.len_scale", "covmodel/tools.py:set_len_anis"])
def len_scalar(ctx, cls, dim, latlon, temporal):
    _len_single(ctx, cls, dim, latlon, temporal, "scalar")


@contract(P, "CovModel.len_scale.setter[single-value-in-a-sequence]/anisotropy-kept",
          params=[dict(c, form=f) for c in configs(REPR) for f in ("list", "tuple", "ndarray")],
          functions=["covmodel/base.py:CovModel.len_scale", "covmodel/tools.py:set_len_anis"])
def len_single_seq(ctx, cls, dim, latlon, temporal, form):
    """'anis ... will be recalculated if len_scale is given by AT LEAST TWO values': one value, however it is
    wrapped, is a scalar length scale and changes nothing else"""
    _len_single(ctx, cls, dim, latlon, temporal, form)


def _len_single(ctx, cls, dim, latlon, temporal, form):
    a, opt, ob, mdim = sym_args(ctx, cls, dim, latlon, temporal)
    m = build(cls, dim, latlon, temporal, a, opt)
    old = view(m)
    x = ctx.real("x")
    ok = ctx.gt(x, 0)
    given = {"scalar": lambda: x, "list": lambda: [x], "tuple": lambda: (x,),
             "ndarray": lambda: np.array([x], dtype=object if ctx.mode == "sym" else float)}[form]()
    try:
        m.len_scale = given
    except ValueError:
        ctx.ensure("rejected=>out-of-bounds", ctx.Not(ok))
        ctx.ensure("rejected=>state-unchanged", view_eq(ctx, view(m), old))
        return
    ctx.ensure("accepted=>in-bounds", ok)
    ctx.ensure("value-set", ctx.eq(m.len_scale, x))
    # a scalar length scale changes nothing else (lat-lon keeps space isotropic, time ratio kept)
    ctx.ensure("frame", view_eq(ctx, view(m), old, skip=("_len_scale", "_var") if "TPL" in cls and cls != "TPLSimple" else ("_len_scale",)))
    ctx.ensure("var-raw-kept", ctx.eq(m.var_raw, old["_var"]))
    ctx.ensure("inv", inv(ctx, m, cls, latlon, temporal))
    ctx.ensure("equals-fresh-model", view_eq(ctx, view(m), view(fresh_like(m, cls, latlon, temporal))))
    ctx.ensure("derived-quantities=fresh-model", derived_eq(ctx, m, cls, latlon, temporal))


@contract(P, "CovModel.len_scale.setter[list]/redefines-anisotropy", params=configs(REPR),
          functions=["covmodel/base.py:CovModel.len_scale", "covmodel/tools.py:set_len_anis"])
def len_list(ctx, cls, dim, latlon, temporal):
    a, opt, ob, mdim = sym_args(ctx, cls, dim, latlon, temporal)
    m = build(cls, dim, latlon, temporal, a, opt)
    old = view(m)
    ls = ctx.reals("l", mdim)
    ok = ctx.And(*[ctx.gt(x, 0) for x in ls])
    ctx.require(ctx.ne(ls[0], 0))
    try:
        m.len_scale = list(ls)
    except ValueError:
        ctx.ensure("rejected=>out-of-bounds", ctx.Not(ok))
        ctx.ensure("rejected=>state-unchanged", view_eq(ctx, view(m), old))
        return
    ctx.ensure("accepted=>in-bounds", ok)
    ctx.ensure("main-scale", ctx.eq(m.len_scale, ls[0]))
    exp = [ls[i] / ls[0] for i in range(1, mdim)]
    if latlon:
        exp[:2] = [1.0, 1.0]
    if mdim > 1:
        ctx.ensure("anis=ratios", ctx.eq(m.anis, np.array(exp, dtype=object)))
    ctx.ensure("frame", view_eq(ctx, view(m), old, skip=("_len_scale", "_anis")))
    ctx.ensure("inv", inv(ctx, m, cls, latlon, temporal))
    ctx.ensure("equals-fresh-model", view_eq(ctx, view(m), view(fresh_like(m, cls, latlon, temporal))))
    ctx.ensure("derived-quantities=fresh-model", derived_eq(ctx, m, cls, latlon, temporal))


@contract(P, "CovModel.anis.setter/state", params=[c for c in configs(REPR) if c["dim"] > 1],
          functions=["covmodel/base.py:CovModel.anis", "covmodel/tools.py:set_len_anis"])
def anis_set(ctx, cls, dim, latlon, temporal):
    a, opt, ob, mdim = sym_args(ctx, cls, dim, latlon, temporal)
    m = build(cls, dim, latlon, temporal, a, opt)
    old = view(m)
    rs = ctx.reals("x", mdim - 1)
    ok = ctx.And(*[ctx.gt(x, 0) for x in rs])
    try:
        m.anis = list(rs)
    except ValueError:
        ctx.ensure("rejected=>out-of-bounds", ctx.Not(ok))
        ctx.ensure("rejected=>state-unchanged", view_eq(ctx, view(m), old))
        return
    ctx.ensure("accepted=>in-bounds", ok)
    exp = list(rs)
    if latlon:
        exp[:2] = [1.0, 1.0]
    ctx.ensure("value-set", ctx.eq(m.anis, np.array(exp, dtype=object)))
    ctx.ensure("frame", view_eq(ctx, view(m), old, skip=("_anis",)))
    ctx.ensure("inv", inv(ctx, m, cls, latlon, temporal))
    ctx.ensure("equals-fresh-model", view_eq(ctx, view(m), view(fresh_like(m, cls, latlon, temporal))))
    ctx.ensure("derived-quantities=fresh-model", derived_eq(ctx, m, cls, latlon, temporal))


@contract(P, "CovModel.angles.setter/state", params=[c for c in configs(REPR) if c["dim"] > 1],
          functions=["covmodel/base.py:CovModel.angles", "covmodel/tools.py:set_model_angles"])
def angles_set(ctx, cls, dim, latlon, temporal):
    a, opt, ob, mdim = sym_args(ctx, cls, dim, latlon, temporal)
    m = build(cls, dim, latlon, temporal, a, opt)
    old = view(m)
    na = mdim * (mdim - 1) // 2
    ts = ctx.reals("x", na, angle=True)
    m.angles = list(ts)
    if latlon:
        exp = [0.0] * na
    elif temporal:
        ns = (mdim - 1) * (mdim - 2) // 2
        exp = list(ts[:ns]) + [0.0] * (na - ns)
    else:
        exp = list(ts)
    ctx.ensure("value-set", ctx.eq(m.angles, np.array(exp, dtype=object)))
    ctx.ensure("frame", view_eq(ctx, view(m), old, skip=("_angles",)))
    ctx.ensure("inv", inv(ctx, m, cls, latlon, temporal))
    ctx.ensure("equals-fresh-model", view_eq(ctx, view(m), view(fresh_like(m, cls, latlon, temporal))))
    ctx.ensure("derived-quantities=fresh-model", derived_eq(ctx, m, cls, latlon, temporal))


@contract(P, "CovModel.rescale.setter/state", params=configs(REPR),
          functions=["covmodel/base.py:CovModel.rescale"])
def rescale_set(ctx, cls, dim, latlon, temporal):
    a, opt, ob, mdim = sym_args(ctx, cls, dim, latlon, temporal)
    m = build(cls, dim, latlon, temporal, a, opt)
    old = view(m)
    x = ctx.real("x", pos=True)
    ctx.require(ctx.ne(x, 0))
    m.rescale = x
    ctx.ensure("value-set", ctx.eq(m.rescale, ctx.m.abs(x)))
    ctx.ensure("frame", view_eq(ctx, view(m), old, skip=("_rescale",)))
    ctx.ensure("len-rescaled", ctx.eq(m.len_rescaled * m.rescale, m.len_scale))
    ctx.ensure("derived-quantities=fresh-model", derived_eq(ctx, m, cls, latlon, temporal))


def _opt_configs():
    out = []
    for c in configs([k for k in CLASSES]):
        ob, _ = opt_info(c["cls"], c["dim"], c["latlon"], c["temporal"])
        for k in ob:
            d = dict(c)
            d["opt"] = k
            out.append(d)
    return out


@contract(P, "CovModel.__setattr__[optional-argument]/state", params=_opt_configs(),
          functions=["covmodel/base.py:CovModel.__setattr__", "covmodel/tools.py:check_arg_bounds"])
def opt_set(ctx, cls, dim, latlon, temporal, opt):
    a, o, ob, mdim = sym_args(ctx, cls, dim, latlon, temporal)
    m = build(cls, dim, latlon, temporal, a, o)
    old = view(m)
    x = ctx.real("x")
    ok = in_bound(ctx, x, ob[opt])
    try:
        setattr(m, opt, x)
    except ValueError:
        ctx.ensure("rejected=>out-of-bounds", ctx.Not(ok))
        ctx.ensure("rejected=>state-unchanged", view_eq(ctx, view(m), old))
        return
    ctx.ensure("accepted=>in-bounds", ok)
    ctx.ensure("value-set", ctx.eq(getattr(m, opt), x))
    ctx.ensure("frame", view_eq(ctx, view(m), old, skip=(opt,)))
    ctx.ensure("var-raw-kept", ctx.eq(m.var_raw, old["_var"]))
    ctx.ensure("inv", inv(ctx, m, cls, latlon, temporal))
    ctx.ensure("derived-quantities=fresh-model", derived_eq(ctx, m, cls, latlon, temporal))


def _dim_configs():
    out = []
    for c in CLASSES:
        for d in (1, 2, 3, 4):
            for d2 in (1, 2, 3, 4):
                if d != d2:
                    out.append({"cls": c, "dim": d, "dim2": d2, "temporal": False})
        for d in (2, 3, 4):
            for d2 in (2, 3, 4):
                if d != d2 and c in REPR:
                    out.append({"cls": c, "dim": d, "dim2": d2, "temporal": True})
    return out


@contract(P, "CovModel.dim.setter/state", params=_dim_configs(),
          functions=["covmodel/base.py:CovModel.dim", "covmodel/tools.py:set_dim"])
def dim_set(ctx, cls, dim, dim2, temporal):
    latlon = False
    a, opt, ob, mdim = sym_args(ctx, cls, dim, latlon, temporal)
    m = build(cls, dim, latlon, temporal, a, opt)
    old = view(m)
    try:
        _quiet(setattr, m, "dim", dim2)
    except ValueError:
        # a dimension change may only be refused if some current value is invalid in the new
        # dimension (dimension-dependent bounds); then nothing changes
        ob2, _ = opt_info(cls, dim2, latlon, temporal)
        ctx.ensure("rejected=>value-invalid-in-new-dim",
                   ctx.Not(ctx.And(*[in_bound(ctx, opt[k], b) for k, b in ob2.items()])))
        ctx.ensure("rejected=>state-unchanged", view_eq(ctx, view(m), old))
        return
    ctx.ensure("dim-set", m.dim == dim2)
    # anisotropy: keep the leading ratios, pad with ones; angles: keep leading, pad with zeros
    keep = list(a["anis"][: dim2 - 1])
    exp_anis = [1.0] * (dim2 - 1 - len(keep)) + keep
    if dim2 > 1:
        ctx.ensure("anis-resized", ctx.eq(m.anis, np.array(exp_anis, dtype=object)))
    ctx.ensure("frame", view_eq(ctx, view(m), old, skip=("_dim", "_anis", "_angles", "_opt_arg_bounds")))
    ctx.ensure("inv", inv(ctx, m, cls, latlon, temporal, with_opt=False))
    ctx.ensure("optional-arguments-valid-in-new-dim", opt_in_bounds(ctx, m))
    if cls not in ("SuperSpherical", "JBessel", "TPLSimple"):      # their bounds move with dim (F10)
        ctx.ensure("derived-quantities=fresh-model", derived_eq(ctx, m, cls, latlon, temporal))


INT_SCALE = ["Gaussian", "Exponential", "Stable", "Rational"]


@contract(P, "CovModel.integral_scale.setter/state",
          params=[c for c in configs(INT_SCALE) if c["dim"] in (1, 3, 4)],
          functions=["covmodel/base.py:CovModel.integral_scale"], timeout=60)
def int_scale_set(ctx, cls, dim, latlon, temporal):
    a, opt, ob, mdim = sym_args(ctx, cls, dim, latlon, temporal, interior=True)
    if cls == "Rational":
        # documented: the integral scale of the Rational model is finite only for alpha > 1/2
        ctx.require(ctx.gt(opt["alpha"], 0.5))
    m = build(cls, dim, latlon, temporal, a, opt)
    old = view(m)
    x = ctx.real("x", pos=True)
    ctx.require(ctx.gt(x, 0))
    m.integral_scale = x
    ctx.ensure("integral-scale-met", ctx.eq(m.calc_integral_scale(), x))
    ctx.ensure("frame", view_eq(ctx, view(m), old, skip=("_len_scale",)))
    ctx.ensure("inv", inv(ctx, m, cls, latlon, temporal))


@contract(P, "CovModel.integral_scale.setter[list]/redefines-anisotropy-like-len_scale",
          params=[c for c in configs(["Gaussian", "Exponential"]) if c["dim"] in (2, 3) and not c["latlon"]] +
                 [{"cls": "Gaussian", "dim": d, "latlon": False, "temporal": False, "via": "constructor"} for d in (2, 3)],
          functions=["covmodel/base.py:CovModel.integral_scale", "covmodel/base.py:CovModel.integral_scale_vec",
                     "covmodel/tools.py:set_len_anis"], timeout=60)
def int_scale_list(ctx, cls, dim, latlon, temporal, via="setter"):
    """`integral_scale : float or list` -- a list is formatted like a `len_scale` list: the first entry is the
    main integral scale, the ratios define the anisotropy, so that integral_scale_vec equals the given list"""
    a, opt, ob, mdim = sym_args(ctx, cls, dim, latlon, temporal, interior=True)
    xs = ctx.reals("i", mdim, pos=True)
    for x in xs:
        ctx.require(ctx.gt(x, 0))
    if via == "setter":
        m = build(cls, dim, latlon, temporal, a, opt)
        old = view(m)
        m.integral_scale = list(xs)
    else:
        old = None
        m = _quiet(getattr(gs, cls), dim=dim, var=a["var"], nugget=a["nugget"], integral_scale=list(xs),
                   angles=list(a["angles"]), rescale=a["rescale"], temporal=temporal, **opt)
    ctx.ensure("main-integral-scale=first-entry", ctx.eq(m.calc_integral_scale(), xs[0]))
    ctx.ensure("anis=ratios", ctx.eq(m.anis, np.array([xs[i] / xs[0] for i in range(1, mdim)], dtype=object)))
    ctx.ensure("integral_scale_vec=given-list", ctx.eq(m.integral_scale_vec, np.array(list(xs), dtype=object)))
    if old is not None:
        ctx.ensure("frame", view_eq(ctx, view(m), old, skip=("_len_scale", "_anis")))
    ctx.ensure("inv", inv(ctx, m, cls, latlon, temporal))


# --- constructor with a prescribed integral scale (+ variance): ghost for scipy.integrate.quad ---------
_REAL_QUAD = None


def install_quad_stub():
    """covmodel.base.integral (scipy quad) -> ghost: the integral of the model's correlation is an
    uninterpreted function of the numeric model view; assumed (T5/T8) homogeneous of degree one in
    the length scale (substitution r -> r * len_scale), which the integral_scale setter relies on"""
    global _REAL_QUAD
    import gstools.covmodel.base as B
    from gsvc import symrun
    if _REAL_QUAD is not None:
        return
    _REAL_QUAD = B.integral

    def integral(fun, a, b, *args, **kw):
        owner = getattr(fun, "__self__", None)
        if symrun.symbolic_active() and owner is not None:
            if getattr(fun, "__name__", "") in ("cor", "cor_from_correlation"):
                # the normalised correlation cor(h) depends on h and the optional arguments only (C03, first
                # clause; lower cut-off 0 for the truncated power law models in these contracts): its integral
                # is a positive number I(optional arguments); the code multiplies it by len_scale / rescale
                unit = symrun.uf("quad_normcor_" + type(owner).__name__, 1,
                                 *[getattr(owner, k) for k in owner.opt_arg])
                symrun.CUR.add_assume(unit.t > 0)
                return (unit, 0.0)
            unit = symrun.uf("quad_cor_" + type(owner).__name__, 1, owner.rescale,
                             *[getattr(owner, k) for k in owner.opt_arg])
            symrun.CUR.add_assume(unit.t > 0)
            return (owner.len_scale * unit, 0.0)
        return _REAL_QUAD(fun, a, b, *args, **kw)
    B.integral = integral
    symrun.SHIM_LOG.append("gstools.covmodel.base.integral (scipy quad) -> ghost: integral of the NORMALISED correlation cor = "
                           "I(optional arguments) > 0 uninterpreted (the code scales it by len_scale / rescale)")


@contract(P, "CovModel.__init__[integral_scale]/state",
          params=[{"cls": c, "dim": d} for c in ("Gaussian", "Stable", "TPLGaussian", "TPLStable", "Cubic") for d in (1, 3)],
          functions=FN_BASE + ["covmodel/base.py:CovModel.integral_scale"], timeout=60)
def ctor_int_scale(ctx, cls, dim):
    """constructing with var AND integral_scale: the variance and sill are the requested ones (the
    variance of truncated-power-law models follows the final length scale), the integral scale is met"""
    install_quad_stub()
    latlon = temporal = False
    ob, mdim = opt_info(cls, dim, latlon, temporal)
    v, n, isc = ctx.real("var", pos=True), ctx.real("nug", nonneg=True), ctx.real("iscale", pos=True)
    ctx.require(ctx.And(ctx.gt(v, 0), ctx.ge(n, 0), ctx.gt(isc, 0)))
    opt = {}
    for k, b in ob.items():
        lo = b[0] if b[0] != -np.inf else -5.0
        hi = b[1] if b[1] != np.inf else lo + 5.0
        opt[k] = ctx.real(k, lo=lo + 0.1 * (hi - lo), hi=hi - 0.1 * (hi - lo))
        ctx.require(in_bound(ctx, opt[k], b))
    if "len_low" in opt:
        ctx.require(ctx.le(opt["len_low"], 0))      # the seeded scenario: lower cut-off 0
        opt["len_low"] = 0.0
    try:
        m = _quiet(getattr(gs, cls), dim=dim, var=v, nugget=n, integral_scale=isc, **opt)
    except ValueError:
        ctx.ensure("accepted", False)       # in-bound arguments must not be rejected
        return
    ctx.ensure("var=requested", ctx.eq(m.var, v))
    ctx.ensure("sill=var+nugget", ctx.eq(m.sill, v + n))
    ctx.ensure("integral-scale-met", ctx.eq(m.integral_scale, isc))
    m2 = _quiet(getattr(gs, cls), dim=dim, var=v, nugget=n, len_scale=m.len_scale, **opt)
    ctx.ensure("equals-model-built-from-resulting-len_scale", view_eq(ctx, view(m), view(m2)))


@contract(P, "CovModel.set_arg_bounds[several]/every-parameter-ends-inside-its-new-bounds-in-any-keyword-order",
          params={"cls": ["Gaussian", "Stable", "TPLStable", "TPLGaussian"], "start": ["len-outside", "var+len-outside", "all-inside"]},
          functions=["covmodel/tools.py:set_arg_bounds", "covmodel/base.py:CovModel.set_arg_bounds",
                     "covmodel/tools.py:check_arg_in_bounds", "covmodel/tools.py:default_arg_from_bounds"],
          bounded="native run: fixed bounds var in [0.5, 2], len_scale in [5, 10], nugget in [0, 1]; both keyword orders")
def set_bounds_order(ctx, cls, start):
    """`set_arg_bounds(var=…, len_scale=…)`: valid bounds are never rejected; a parameter outside its new bounds gets
    'a proper default value' inside them, a parameter inside keeps its value; the variance (which for
    truncated-power-law models follows the other parameters through var_factor) ends inside its bounds; the
    result does not depend on the order of the keyword arguments"""
    from gsvc import symrun as _sr
    with _sr.native():
        v0, l0 = {"len-outside": (1.0, 1.0), "var+len-outside": (30.0, 20.0), "all-inside": (1.5, 7.0)}[start]
        bnd = {"var": [0.5, 2.0], "len_scale": [5.0, 10.0], "nugget": [0.0, 1.0]}
        outs, errs = [], []
        for order in (("var", "len_scale", "nugget"), ("len_scale", "nugget", "var"), ("nugget", "var", "len_scale")):
            m = _quiet(getattr(gs, cls), dim=2, var=v0, len_scale=l0)
            try:
                m.set_arg_bounds(**{k: list(bnd[k]) for k in order})
            except ValueError as e:
                errs.append(repr(e))
                continue
            outs.append((float(m.var), float(m.len_scale), float(m.nugget)))
        ok_noerr = not errs
        ok_in = all(0.5 <= v <= 2.0 and 5.0 <= l <= 10.0 and 0.0 <= n <= 1.0 for v, l, n in outs)
        ok_same = len({tuple(round(x, 12) for x in o) for o in outs}) <= 1
        ok_keep = True
        if start == "all-inside" and outs:
            ok_keep = abs(outs[0][0] - v0) < 1e-12 and abs(outs[0][1] - l0) < 1e-12
        if start == "len-outside" and outs:
            ok_keep = abs(outs[0][1] - 7.5) < 1e-12         # documented default: the mean of finite bounds
    ctx.ensure("valid-bounds-accepted", ok_noerr)
    ctx.ensure("all-parameters-inside-their-bounds", ok_in)
    ctx.ensure("independent-of-keyword-order", ok_same)
    ctx.ensure("inside=>kept,outside=>default-from-bounds", ok_keep)


@contract(P, "CovModel.setters/NaN-is-outside-every-bound",
          params={"cls": ["Gaussian", "Stable", "TPLStable"], "what": ["var", "len_scale", "nugget", "opt", "ctor-var", "ctor-len_scale"]},
          functions=["covmodel/tools.py:check_arg_in_bounds", "covmodel/tools.py:check_arg_bounds",
                     "covmodel/base.py:CovModel._set_checked"],
          bounded="native run: NaN assigned to one parameter of a 2-D model")
def nan_rejected(ctx, cls, what):
    """'values outside bounds are always rejected': NaN is not inside any interval; an assignment of NaN raises
    ValueError and leaves the model unchanged, a constructor call with NaN raises"""
    from gsvc import symrun as _sr
    with _sr.native():
        nan = float("nan")
        if what.startswith("ctor"):
            try:
                _quiet(getattr(gs, cls), dim=2, **{what[5:]: nan})
                ok = False
            except ValueError:
                ok = True
        else:
            m = _quiet(getattr(gs, cls), dim=2, var=1.5, len_scale=3.0, nugget=0.2)
            name = what if what != "opt" else (list(m.opt_arg)[0] if m.opt_arg else None)
            if name is None:
                ok = True
            else:
                before = {k: getattr(m, k) for k in ("var", "len_scale", "nugget") + tuple(m.opt_arg)}
                try:
                    setattr(m, name, nan)
                    ok = False
                except ValueError:
                    after = {k: getattr(m, k) for k in before}
                    ok = all(float(before[k]) == float(after[k]) for k in before)
    ctx.ensure("NaN-rejected,state-unchanged", ok)


@contract(P, "CovModel.bounds.setters/bounds-owned-by-the-model;current-value-stays-inside",
          params=[{"which": w, "via": v} for w in ("var", "len_scale", "nugget", "anis", "alpha")
                  for v in ("property", "set_arg_bounds") if not (w == "alpha" and v == "property")],
          functions=["covmodel/base.py:CovModel.var_bounds", "covmodel/base.py:CovModel.len_scale_bounds",
                     "covmodel/base.py:CovModel.nugget_bounds", "covmodel/base.py:CovModel.anis_bounds",
                     "covmodel/tools.py:set_arg_bounds"],
          bounded="native run: Stable model, dim 2; one bounds list per parameter, one in-place edit of the caller's list")
def bounds_setters(ctx, which, via):
    """'bounds' are among the assignments of the statement: (1) the model owns its bounds -- the caller editing the list
    it handed over afterwards is not an assignment; (2) after a bounds assignment the current value lies inside the new
    bounds (moved there as `set_arg_bounds` documents) or the assignment is rejected -- a model never HOLDS a value
    outside its bounds"""
    from gsvc import symrun as _sr
    with _sr.native():
        m = _quiet(gs.Stable, dim=2, var=1.0, len_scale=1.0, nugget=1.0, anis=1.0, alpha=1.0)
        new = [2.0, 5.0, "cc"] if which != "alpha" else [1.5, 2.0, "cc"]
        mine = list(new)
        try:
            if via == "property":
                setattr(m, which + "_bounds", mine)
            else:
                m.set_arg_bounds(**{which: mine})
            rejected = False
        except ValueError:
            rejected = True
        cur = np.atleast_1d(getattr(m, which))
        b = m.arg_bounds[which]
        inside = rejected or bool(np.all(cur >= b[0]) and np.all(cur <= b[1]))
        mine[1] = mine[0] - 10.0        # the caller re-uses its list: lower > upper would be invalid bounds
        owned = rejected or list(m.arg_bounds[which]) == new
    ctx.ensure("bounds-owned-by-the-model", owned)
    ctx.ensure("current-value-inside-the-new-bounds-or-rejected", inside)


def _state(m):
    return (int(m.dim), float(m.var), float(m.len_scale), float(m.nugget), tuple(np.round(np.atleast_1d(m.anis), 12)),
            tuple(np.round(np.atleast_1d(m.angles), 12)), tuple(sorted((k, float(getattr(m, k))) for k in m.opt_arg)))


@contract(P, "CovModel.integral_scale.setter,dim.setter[custom-bounds]/rejected-assignments-change-nothing;valid-values-accepted",
          params={"case": ["integral_scale:valid-under-custom-len_scale-bounds", "integral_scale:rejected-list(TPL)",
                           "integral_scale:rejected-scalar", "dim:rejected-by-custom-anis-bounds", "len_scale:rejected-list"]},
          functions=["covmodel/base.py:CovModel.integral_scale", "covmodel/base.py:CovModel.len_scale",
                     "covmodel/tools.py:set_dim", "covmodel/tools.py:check_arg_bounds"],
          bounded="native run: one model and one assignment per case")
def transactional_setters(ctx, case):
    """'values outside their bounds are always rejected': a rejected assignment leaves the model as it was (the
    per-parameter setter contracts prove this for the simple setters; these are the composite ones), and a value
    whose RESULT lies inside the bounds is accepted whatever intermediate values the setter uses"""
    from gsvc import symrun as _sr
    ok = True
    with _sr.native():
        if case.startswith("integral_scale:valid"):
            m = _quiet(gs.Gaussian, dim=2, len_scale=10.0)
            m.set_arg_bounds(len_scale=[5.0, 20.0])
            try:
                m.integral_scale = 10.0         # resulting len_scale = 10 * 2 / sqrt(pi) = 11.28 in [5, 20]
                ok = abs(float(m.integral_scale) - 10.0) < 1e-9 and 5.0 <= float(m.len_scale) <= 20.0
            except ValueError:
                ok = False
        else:
            if case == "integral_scale:rejected-list(TPL)":
                m = _quiet(gs.TPLGaussian, dim=2, len_scale=3.0, len_low=5.0, anis=0.5)
                act = lambda: setattr(m, "integral_scale", [10.0, 2.0])          # noqa: E731
            elif case == "integral_scale:rejected-scalar":
                m = _quiet(gs.Gaussian, dim=2, len_scale=3.0, anis=0.5)
                act = lambda: setattr(m, "integral_scale", -1.0)                 # noqa: E731
            elif case == "len_scale:rejected-list":
                m = _quiet(gs.Gaussian, dim=2, len_scale=3.0, anis=0.5)
                m.set_arg_bounds(anis=[0.1, 0.9])
                act = lambda: setattr(m, "len_scale", [2.0, 4.0])                # noqa: E731  ratio 2 outside [0.1, 0.9]
            else:
                m = _quiet(gs.Gaussian, dim=2, anis=0.5)
                m.set_arg_bounds(anis=[0.1, 0.9])
                act = lambda: setattr(m, "dim", 3)                               # noqa: E731  new ratio 1 outside [0.1, 0.9]
            before = _state(m)
            try:
                _quiet(act)
                ok = True       # accepted: nothing to show here (the per-setter contracts cover accepted values)
            except ValueError:
                ok = _state(m) == before
                if not ok and ctx.mode == "conc":
                    ctx.results["state-before/after"] = repr((before, _state(m)))
    ctx.ensure("rejected=>model-unchanged;valid=>accepted", ok)
