r"""C06 -- kriging interpolates exactly; the variance is non-negative and bounded.

Lemma chain (DESIGN 6-C06), on the real Krige code with the matrix-inverse contract stub and the
kernel postconditions of contracts/krige_common.py.  Target = conditioning point i, measurement
error zero (no nugget, or exact=True with cond_err="nugget"):

  L1  the right-hand side handed to the kernel is column i of the kriging matrix A
      (dist(p, p) = 0, covariance at 0 = A_ii, drift rows identical, anisometrize(isometrize(x)) = x)
  L2  K k = e_i                      (from (K.A)_ri = delta_ri, assumed T5)
  L3  raw field = cond_i             (kernel postcondition)
  L4  k^T K k = k_i = A_ii = sill  =>  krige_var = max(sill - sill, 0) = 0
  L5  returned field = trend + denormalize(mean + cond_i) = conditioning VALUE
      (normalizer round trip: C18)

krige_var >= 0 from the np.maximum postcondition; krige_var <= sill for simple kriging from
k^T K k >= 0 (assumed: inverse of a positive definite matrix is positive definite, T8/C02).
"""
import numpy as np
import z3

import gstools as gs
from gsvc.contract import contract
from gsvc import symrun
from contracts import krige_common as kc
from contracts import axioms as ax
from contracts.krige_common import lemma, quiet, arr, dot, delta, terms
from contracts.c05 import (MAXP, MAXP_FORK, max_using, drift_using, FitEnv, fitted_setup, BND, FN_CALL, FN_MAT, hint_cor0, aniso_iso_lemma, raw_call, not_close, spec_quadform,
                           _rhs_lemmas)

P = "C06"
ALLV = [v for v in kc.VARIANTS if v != "ordinary+mean"]


def window_require(ctx, d, label):
    """require |d| > 1e-8 (outside the coincidence window of numpy.isclose(|d|, 0) in
    CovModel.cov_nugget), recorded in the shapes Path.branch may meet (see c05.not_close)"""
    if ctx.mode == "conc":
        return ctx.require(not np.isclose(abs(d), 0), label)
    u, v = abs(symrun.wrap(d)), symrun.wrap(0.0)
    cond = z3.simplify((abs(u - v) <= 1.0e-8 + 1.0e-5 * abs(v)).t)
    f = ctx.require(z3.Not(cond), label)
    a5 = z3.simplify(u.t)
    c8 = z3.simplify(symrun.lift(1.0e-8))
    le, ge = z3.ArithRef.__le__, z3.ArithRef.__ge__
    shapes = [le(z3.If(a5 >= 0, a5, -1 * a5), c8), z3.If(a5 >= 0, le(a5, c8), ge(a5, -c8))]
    for sh in shapes + [z3.simplify(x) for x in shapes]:
        nf = z3.Not(sh)
        ctx.path.known[nf.get_id()] = nf
    return f


def round_trip(ctx, S, y):
    """denormalize(normalize(y)) = y at the evaluated point: proved per class in C18; instantiated
    here (generic normalizer: assumed contract; LogNormal: exp(log y) = y for y > 0, T4)"""
    if S.norm == "none":
        return []
    if S.norm == "LogNormal":
        return [ax.exp_log(ctx, y)]
    if ctx.mode == "conc":
        return []
    return [ctx.hint(ctx.eq(S.dn(S.nm(y)), y), kc.NORM_RT_LABEL)]


def _exact_params(thorough=False):
    out = []
    for v in ALLV:
        for dim in ((3,) if thorough else (1, 2)):
            n0 = kc.min_points(v, dim)
            if n0 > 3:
                continue
            for mode in ("no-nugget", "exact"):
                ns = [3] if (thorough or dim == 1) else [max(n0, 2)]
                for n in ns:
                    for i in sorted({0, n - 1}):
                        norm = "generic" if i == 0 else "LogNormal"
                        if v == "detrended":
                            norm = "none"
                        out.append({"variant": v, "n": n, "dim": dim, "mode": mode, "i": i, "norm": norm})
    return out


def _exact_body(ctx, variant, n, dim, mode, i, norm):
    kc.reset()
    exact = mode == "exact"
    S = kc.build(ctx, variant, n, dim, err="exact" if exact else "nugget", nugget="pos" if exact else "none",
                 norm=norm, mean="const", trend="callable")
    _exact_chain(ctx, S, i)


def _exact_chain(ctx, S, i):
    """the lemma chain L1-L5 for target = conditioning point i of the set-up S"""
    n, dim, exact = S.n, S.dim, S.exact
    m, A, K = S.m, S.A, S.K
    iso = S.model.isometrize(S.cpos)
    W = {}
    if exact:       # non-singular system: the other conditioning points are not coincident with point i
        for j in range(n):
            if j != i:
                d = kc.dist(ctx, iso[:, j], iso[:, i])
                W[j] = (window_require(ctx, d, "non-singular system: distinct conditioning points"), d)
    # the target IS conditioning point i (same coordinates, same external drift values)
    tp = arr(ctx, [[S.cpos[d, i]] for d in range(dim)])
    pts = [S.pts[i]]
    te = None if not S.de else arr(ctx, [[S.ext[e, i]] for e in range(S.de)])
    ai = aniso_iso_lemma(ctx, S, pts)
    field, var = raw_call(ctx, S, tp, te)
    call = kc.CALLS["kernel"][-1]
    kv, kcond, kmat = call["vecs"], call["cond"], call["mat"]
    ctx.ensure("kernel-preconditions(C15-requires)", all(c["pre"] for c in kc.CALLS["kernel"]))
    ctx.ensure("kernel-input.matrix=stored-inverse", ctx.And(ctx.shape_eq(kmat, (m, m)), ctx.eq(kmat, K)))
    if np.shape(kv) != (m, 1) or np.shape(kmat) != (m, m):
        ctx.ensure("kernel-input.rhs-shape", False)
        return
    h0 = hint_cor0(ctx, S)
    # L1: rhs = column i of A
    L1 = []
    for j in range(m):
        if j < n and j != i and exact:
            L1.append(lemma(ctx, "L1:rhs=column-i-of-kriging-matrix(cov-rows)", ctx.eq(kv[j, 0], A[j, i]),
                            using=[W[j][0]] + S.model_req, generalize=[W[j][1]]))
        elif S.if0 <= j < S.ie0:
            L1.append(lemma(ctx, "L1:rhs=column-i-of-kriging-matrix(drift-rows)", ctx.eq(kv[j, 0], A[j, i]),
                            **drift_using(ctx, S, ai[0])))
        else:
            L1.append(lemma(ctx, "L1:rhs=column-i-of-kriging-matrix(%s)" % ("cov-rows" if j < n else "unbiased,ext-rows"),
                            ctx.eq(kv[j, 0], A[j, i]), using=[h0] + S.model_req))
    # L2: K k = e_i
    I = kc.inverse_contract(ctx, A, K)
    q = [kc.kq(kmat, kv, r, 0) for r in range(m)]
    gen = (terms(kv) + terms(A)) if ctx.mode == "sym" else None
    L2 = [lemma(ctx, "L2:K.k=e_i", ctx.eq(q[r], delta(r, i)), using=L1 + [I.KA[r][i]], generalize=gen) for r in range(m)]
    # L3: raw field = cond_i
    cond = kc.spec_cond(ctx, S)
    C = lemma(ctx, "kernel-input.cond=normalize(value-trend)-mean,padded", ctx.And(ctx.shape_eq(kcond, (m,)),
                                                                                  ctx.eq(kcond, cond)))
    genq = (terms(q) + terms(kcond) + terms(kv)) if ctx.mode == "sym" else None
    L3 = lemma(ctx, "L3:raw-field=cond_i", ctx.eq(field[0], kcond[i]), using=L2, generalize=genq)
    # L4: variance 0
    sill = S.model.var + S.model.nugget
    L4a = lemma(ctx, "L4:k^T.K.k=k_i=A_ii=sill", ctx.eq(dot([kv[r, 0] for r in range(m)], q), sill),
                using=L2 + [L1[i], h0] + S.model_req, generalize=terms(q) if ctx.mode == "sym" else None)
    ctx.ensure("krige_var=0-at-conditioning-point", ctx.eq(var[0], 0), using=[L4a],
               generalize=(terms(q) + terms(kv)) if ctx.mode == "sym" else None)
    # L5: returned field = conditioning value
    y = S.vals[i] - S.trend_at(S.pts[i])
    rt = round_trip(ctx, S, y)
    fpp, vpp = quiet(S.krige, tp, ext_drift=te)
    z = S.mean_at(S.pts[i]) + field[0]
    if ctx.mode == "sym":       # function applications hold simplified arguments: name this one
        z = symrun.SymReal(z3.simplify(symrun.lift(z)))
    P5 = lemma(ctx, "post-processed-field=trend+denormalize(mean+raw)",
               ctx.eq(fpp[0], S.trend_at(S.pts[i]) + S.dn(z)))
    Z = lemma(ctx, "L5:mean+raw-field=normalize(value-trend)", ctx.eq(z, S.nm(y)), using=[L3, C])
    ctx.ensure("returned-field=conditioning-value", ctx.eq(fpp[0], S.vals[i]),
               using=[P5, Z] + rt + S.model_req + _val_req(ctx, S), generalize=[z] if (ctx.mode == "sym" and S.norm != "none") else None)
    ctx.ensure("returned-variance=0", ctx.eq(vpp[0], 0), using=[L4a],
               generalize=(terms(q) + terms(kv)) if ctx.mode == "sym" else None)


def _val_req(ctx, S):
    """the requires on the data values (LogNormal: value - trend > 0)"""
    return list(getattr(S, "val_req", []))


@contract(P, "Krige.__call__/exact-at-conditioning-points", params=_exact_params(), functions=FN_CALL + FN_MAT,
          bounded=BND, nsamples=2, search=40, timeout=20, max_paths=MAXP)
@kc.guarded
def exact_interpolation(ctx, variant, n, dim, mode, i, norm):
    _exact_body(ctx, variant, n, dim, mode, i, norm)


@contract(P, "Krige.__call__/exact-at-conditioning-points(dim3)", params=_exact_params(True), functions=FN_CALL + FN_MAT,
          bounded=BND, nsamples=2, search=40, timeout=20, tiers=("thorough",), max_paths=MAXP)
@kc.guarded
def exact_interpolation3(ctx, variant, n, dim, mode, i, norm):
    _exact_body(ctx, variant, n, dim, mode, i, norm)


@contract(P, "Krige(fit_variogram=True).__call__/exact-at-conditioning-points-with-the-FITTED-model",
          params=[{"variant": v, "start": st, "via": via, "i": i} for v in ("simple", "ordinary") for st in ("iso", "aniso")
                  for via in ("constructor", "set_condition") for i in (0, 1)],
          functions=FN_CALL + FN_MAT + ["krige/base.py:Krige.set_condition"], bounded=BND, nsamples=2, search=40, timeout=20,
          max_paths=MAXP)
@kc.guarded
def exact_after_fit(ctx, variant, start, via, i):
    """exact mode with fit_normalizer / fit_variogram (ghost fits assigning arbitrary in-bounds
    parameters, anisotropy included): whatever model results, kriging with it reproduces the
    conditioning values with zero variance (dim 2, 2 points; the same chain L1-L5)"""
    kc.reset()
    env = FitEnv(ctx, 2, start)
    with env:
        S, narg = fitted_setup(ctx, env, variant, 2, via, "exact")
    _exact_chain(ctx, S, i)


# ---------------------------------------------------------------------------------------
# variance bounds
# ---------------------------------------------------------------------------------------
@contract(P, "Krige.__call__/variance-nonnegative",
          params=[{"variant": v, "dim": d, "err": e} for v in ALLV for d in (1, 2) for e in ("nugget", "vector", "exact")
                  if kc.min_points(v, d) <= 3 and not (d == 2 and e == "vector")],
          functions=FN_CALL, bounded=BND, nsamples=2, search=40, max_paths=MAXP)
@kc.guarded
def variance_nonneg(ctx, variant, dim, err):
    kc.reset()
    n = max(2, kc.min_points(variant, dim))
    S = kc.build(ctx, variant, n, dim, err=err)
    tp, pts, te = kc.targets(ctx, S, 1)
    if S.exact:
        not_close(ctx, S, pts)
    field, var = raw_call(ctx, S, tp, te)
    ctx.ensure("krige_var>=0", ctx.ge(var[0], 0), **max_using(ctx, var[0]))
    ctx.ensure("stored-krige_var>=0", ctx.ge(S.krige.krige_var[0], 0), **max_using(ctx, S.krige.krige_var[0]))
    fpp, vpp = quiet(S.krige, tp, ext_drift=te)
    ctx.ensure("returned(post_process=True)-krige_var>=0", ctx.ge(vpp[0], 0), **max_using(ctx, vpp[0]))


@contract(P, "Simple.__call__/variance<=sill",
          params=[{"variant": v, "n": n, "dim": d, "err": e} for v in ("simple", "detrended") for (n, d) in ((2, 1), (3, 1), (2, 2))
                  for e in ("nugget", "scalar", "vector", "exact")],
          functions=FN_CALL, bounded=BND, nsamples=3, search=40, max_paths=MAXP)
@kc.guarded
def variance_le_sill(ctx, variant, n, dim, err):
    """simple kriging: A = C + diag(err) is a covariance matrix, positive definite for a positive
    definite model (C02 / T8), so K = A^-1 is positive definite and k^T K k >= 0 (ASSUMED, labelled;
    natively the instance is checked); then krige_var = max(sill - k^T K k, 0) <= sill"""
    kc.reset()
    S = kc.build(ctx, variant, n, dim, err=err)
    tp, pts, te = kc.targets(ctx, S, 1)
    nc = not_close(ctx, S, pts) if S.exact else None
    ai = aniso_iso_lemma(ctx, S, pts)
    field, var = raw_call(ctx, S, tp, te)
    kv = kc.CALLS["kernel"][-1]["vecs"]
    k = kc.spec_rhs(ctx, S, pts[0], None)
    R = _rhs_lemmas(ctx, S, kv, [k], pts, ai, nc=nc)[0]
    qf = spec_quadform(S.K, k)
    psd = ctx.hint(ctx.ge(qf, 0), kc.T8_PSD_LABEL)
    ctx.ensure("T8-instance(native-check):k^T.K.k>=0", ctx.ge(qf, 0) if ctx.mode == "conc" else True)
    sill = S.model.var + S.model.nugget
    gen = (terms(kv) + terms(k)) if ctx.mode == "sym" else None
    ctx.ensure("krige_var<=sill", ctx.le(var[0], sill), using=R + [psd] + S.model_req, generalize=gen)
    ctx.ensure("krige_var>=0", ctx.ge(var[0], 0), **max_using(ctx, var[0]))


# ---------------------------------------------------------------------------------------
# explicit measurement errors are rejected in exact mode
# ---------------------------------------------------------------------------------------
@contract(P, "Krige.cond_err.setter/explicit-errors-rejected-in-exact-mode",
          params=[{"variant": v, "kind": k} for v in ("simple", "ordinary", "universal", "extdrift", "detrended")
                  for k in ("scalar", "vector")],
          functions=["krige/base.py:Krige.cond_err", "krige/base.py:Krige.set_condition"], nsamples=2, search=20, max_paths=MAXP)
@kc.guarded
def cond_err_exact(ctx, variant, kind):
    kc.reset()
    n = max(2, kc.min_points(variant, 1))
    e = ctx.real("e", lo=0.0, hi=0.5)
    ctx.require(ctx.ge(e, 0))
    val = e if kind == "scalar" else arr(ctx, [e] * n)
    # at construction
    S0 = kc.build(ctx, variant, n, 1, err="nugget")        # a valid set-up providing model, positions, data
    cls = getattr(gs.krige, kc.VARIANTS[variant][0])
    extra = {"simple": (), "ordinary": (), "universal": (S0.fdrift,), "extdrift": (S0.ext,), "detrended": (S0.trend,)}[variant]
    try:
        quiet(cls, S0.model, S0.cpos, arr(ctx, S0.vals), *extra, exact=True, cond_err=val)
        ok = False
    except ValueError:
        ok = True
    ctx.ensure("constructor(exact=True,cond_err=explicit)->ValueError", ok)
    # through the setter and set_condition of an exact set-up
    kr = quiet(cls, S0.model, S0.cpos, arr(ctx, S0.vals), *extra, exact=True)
    for how in ("setter", "set_condition"):
        try:
            if how == "setter":
                kr.cond_err = val
            else:
                quiet(kr.set_condition, cond_err=val)
            ok = False
        except ValueError:
            ok = True
        ctx.ensure("%s(explicit)->ValueError" % how, ok)
    ctx.ensure("rejected-value-not-stored", isinstance(kr._cond_err, str) and kr._cond_err == "nugget")
    kr.cond_err = "nugget"
    ctx.ensure("'nugget'-accepted-in-exact-mode:error=model-nugget", ctx.eq(kr.cond_err, S0.model.nugget))
    # non-exact set-ups accept explicit errors and report them back
    S0.krige.cond_err = val
    got = S0.krige.cond_err
    ctx.ensure("non-exact:explicit-error-stored", ctx.eq(np.broadcast_to(np.asarray(got, dtype=object), (n,)),
                                                         arr(ctx, [e] * n)))
    try:
        S0.krige.cond_err = arr(ctx, [e] * (n + 1))
        ok = False
    except ValueError:
        ok = True
    ctx.ensure("non-exact:wrong-number-of-errors->ValueError", ok)


# ---------------------------------------------------------------------------------------
# coincident points + pseudo-inverse: NOT decidable with contracts (scipy pinv SVD cut-offs on a
# singular matrix have no contract); one bounded native obligation stands in
# ---------------------------------------------------------------------------------------
@contract(P, "Krige(pseudo_inv=True)/coincident-points-act-as-one-point-with-mean-value",
          params=[{"layout": l} for l in ("simple-dim1", "ordinary-dim1", "ordinary-dim2")],
          functions=["krige/base.py:Krige._inv"], bounded="native, 3 layouts (2 distinct points + 1 duplicate, no nugget, "
          "pinv; sampled positions and values)", nsamples=8, search=20, max_paths=MAXP)
@kc.guarded
def duplicates_native(ctx, layout):
    """natively checked only (status bounded_ok, never counted as proved): with the pseudo-inverse
    two coincident conditioning points carrying different values give the same estimate and
    variance as one point carrying their mean"""
    kc.reset()
    variant, dim = layout.split("-")
    dim = int(dim[-1])
    cen = kc.CENTERS[dim]
    p = [[ctx.real("p%d_%d" % (d, a), lo=cen["c"][a][d] - 0.3, hi=cen["c"][a][d] + 0.3) for a in range(2)] for d in range(dim)]
    t = [[ctx.real("t%d_%d" % (d, c), lo=cen["t"][c][d] - 0.3, hi=cen["t"][c][d] + 0.3) for c in range(2)] for d in range(dim)]
    v0, v1a, v1b = ctx.real("v0", lo=-2, hi=2), ctx.real("v1a", lo=-2, hi=2), ctx.real("v1b", lo=-2, hi=2)
    var, ls = ctx.real("var", lo=0.5, hi=2.0), ctx.real("len", lo=0.7, hi=2.0)
    if ctx.mode != "conc":
        ctx.ensure("native-only:estimate-and-variance-equal-single-point-with-mean", True)
        return
    model = gs.Exponential(dim=dim, var=var, len_scale=ls)
    cls = gs.krige.Simple if variant == "simple" else gs.krige.Ordinary
    pos3 = [[p[d][0], p[d][1], p[d][1]] for d in range(dim)]
    pos2 = [[p[d][0], p[d][1]] for d in range(dim)]
    tgt = [t[d] + [p[d][1]] for d in range(dim)]          # two free targets + the duplicated location
    k3 = quiet(cls, model, pos3, [v0, v1a, v1b], pseudo_inv=True)
    k2 = quiet(cls, model, pos2, [v0, (v1a + v1b) / 2], pseudo_inv=True)
    f3, s3 = k3(tgt)
    f2, s2 = k2(tgt)
    c = symrun.ConcCtx({}, rtol=1e-6, atol=1e-8)
    ctx.ensure("native-only:estimate-and-variance-equal-single-point-with-mean", c.eq(f3, f2) and c.eq(s3, s2))
