r"""C17 -- Fourier-generated fields are exactly periodic.

A field from the Fourier generator repeats when a position is shifted along the d-th main axis of
the model by period[d]: the isometrised position moves by period[d]/anis[d] e_d (C12), every mode
component along e_d is an integer multiple (m - n_d/2) of 2 pi anis[d]/period[d], so every phase
changes by an integer multiple of 2 pi.  Proved for all positions, periods, anisotropy ratios,
rotation angles, seeds (symbolic); dims 1-3; even mode counts enumerated.
"""
import warnings

import numpy as np

import gstools as gs
from gsvc.contract import contract
from contracts import gen_common as gc
from contracts import axioms as ax
from contracts.c11 import sym_model, _q, _changed_model
from gsvc import symrun
from gstools.field.generator import Fourier

P = "C17"
gc.install()

FN = ["field/generator.py:Fourier.update", "field/generator.py:Fourier._set_modes",
      "field/generator.py:Fourier.reset_seed", "field/generator.py:Fourier.__call__",
      "field/srf.py:SRF.__call__", "covmodel/base.py:CovModel.isometrize", "covmodel/base.py:CovModel.main_axes"]


def _positions(ctx, srf, dim, per, tagx="x"):
    """x and its images shifted by period_d along main axis d, as one unstructured point set
    (one SRF call: no stored-position comparison forks)"""
    x = ctx.reals(tagx, dim)
    axes = srf.model.main_axes()
    cols = [list(x)] + [[x[c] + per[d] * axes[d][c] for c in range(dim)] for d in range(dim)]
    pos = np.array(cols, dtype=object).T
    if ctx.mode == "conc":
        pos = pos.astype(float)
    return x, pos


def _periodic(ctx, srf, dim, per, pos=None, tagx="x"):
    """obligations: field(x + per_d * axis_d) = field(x) for every main axis d"""
    m = ctx.m
    g = srf.generator
    mod = srf.model
    if pos is None:
        x, pos = _positions(ctx, srf, dim, per, tagx)
    vals = srf(pos, store=False)
    iso = mod.isometrize(pos)
    modes, sf, z1, z2 = g._modes, g._spectrum_factor, g._z_1, g._z_2
    nj = modes.shape[1]
    mode_no = list(g.mode_no)
    # lattice property of the modes: component d of every mode is (k - n_d/2) * delta_k[d], k integer
    dk = g._delta_k
    for d in range(dim):
        ctx.ensure("delta_k[%d]=2pi*anis/period" % d,
                   ctx.eq(dk[d], 2 * m.pi / per[d] * (1 if d == 0 else mod.anis[d - 1])))
    idx = np.array(np.meshgrid(*[np.arange(n) for n in mode_no], indexing="ij")).reshape(dim, -1)
    ctx.ensure("mode-count", nj == int(np.prod(mode_no)))
    ctx.lemma("modes-on-lattice", ctx.And(*[
        ctx.eq(modes[d, j], (int(idx[d, j]) - mode_no[d] // 2) * dk[d]) for d in range(dim) for j in range(nj)]))
    for d in range(dim):
        e = np.zeros(dim)
        e[d] = 1.0
        ctx.lemma("iso-shift[axis%d]" % d,
                  ctx.eq(iso[:, 1 + d], iso[:, 0] + (per[d] / (1 if d == 0 else mod.anis[d - 1])) * e))
        hints, lem = [], []
        for j in range(nj):
            ph = gc._phase(modes, iso, j, 0)
            ph2 = gc._phase(modes, iso, j, 1 + d)
            zj = int(idx[d, j]) - mode_no[d] // 2
            L = ctx.lemma("phase-shift[axis%d,mode%d]=2pi*%d" % (d, j, zj),
                          ctx.eq(ph2, ph + 2 * m.pi * zj))
            H = ax.period_shift(ctx, ph, zj)
            # per mode: cos/sin of the shifted phase equal those of the original phase
            lem.append(ctx.lemma("mode-term-unchanged[axis%d,mode%d]" % (d, j),
                                 ctx.And(ctx.eq(m.cos(ph2), m.cos(ph)), ctx.eq(m.sin(ph2), m.sin(ph))),
                                 using=[L, H]))
        ctx.ensure("periodic[axis%d]" % d, ctx.eq(vals[1 + d], vals[0]), using=lem)


def _mk(ctx, dim, mode_no, tag=""):
    mod = sym_model(ctx, dim, tag=tag, nugget=False)
    s = ctx.integer(tag + "seed", lo=1, hi=1000)
    per = ctx.reals(tag + "per", dim, pos=True)
    for p in per:
        ctx.require(ctx.gt(p, 0))
    srf = _q(gs.SRF, mod, generator="Fourier", period=per, mode_no=mode_no, seed=s)
    return mod, s, per, srf


@contract(P, "Fourier/periodic-along-main-axes",
          params=[{"dim": 1, "mode_no": [2]}, {"dim": 1, "mode_no": [4]}, {"dim": 2, "mode_no": [2, 2]},
                  {"dim": 2, "mode_no": [4, 2]}, {"dim": 3, "mode_no": [2, 2, 2]}],
          functions=FN, timeout=20, nsamples=2, search=20)
def periodic(ctx, dim, mode_no):
    mod, s, per, srf = _mk(ctx, dim, mode_no)
    _periodic(ctx, srf, dim, per)


@contract(P, "Fourier/periodic-along-main-axes[thorough]",
          params=[{"dim": 3, "mode_no": [4, 2, 2]}, {"dim": 2, "mode_no": [4, 4]}, {"dim": 1, "mode_no": [8]}],
          functions=FN, timeout=60, nsamples=2, search=20, tiers=("thorough",))
def periodic_thorough(ctx, dim, mode_no):
    mod, s, per, srf = _mk(ctx, dim, mode_no)
    _periodic(ctx, srf, dim, per)


@contract(P, "Fourier.update/periodic-for-new-settings",
          params=[{"dim": d, "what": w} for d in (1, 2) for w in ("period", "mode_no", "anis", "len_scale")
                  if not (d == 1 and w == "anis")],
          functions=FN, timeout=20, nsamples=2, search=20)
def periodic_after_update(ctx, dim, what):
    mod, s, per, srf = _mk(ctx, dim, [2] * dim)
    srf([[0.5, 1.5]] * dim, store=False)       # generate once with the old settings
    if what == "period":
        per = ctx.reals("per2_", dim, pos=True)
        for p in per:
            ctx.require(ctx.gt(p, 0))
        srf.generator.period = per
    elif what == "mode_no":
        srf.generator.mode_no = [4] + [2] * (dim - 1)
    else:
        mod2, v = _changed_model(ctx, mod, what, dim, "beyond")
        if what == "anis":
            srf.model.anis = [v] + list(mod.anis[1:])
        else:
            srf.model.len_scale = v
    _periodic(ctx, srf, dim, per)


@contract(P, "Fourier/short-period-and-mode_no-lists-are-filled-with-their-last-value",
          params=[{"dim": 3, "given": 2}, {"dim": 3, "given": 1}, {"dim": 2, "given": 1}],
          functions=FN + ["field/generator.py:Fourier._fill_to_dim"], timeout=30, nsamples=2, search=20)
def periodic_filled(ctx, dim, given):
    """`period` / `mode_no` shorter than the dimension: 'fill an array with last element up to len(dim)' --
    the remaining axes are periodic with the LAST given period"""
    mod = sym_model(ctx, dim, nugget=False)
    s = ctx.integer("seed", lo=1, hi=1000)
    per = ctx.reals("per", given, pos=True)
    for p in per:
        ctx.require(ctx.gt(p, 0))
    if given > 1:
        ctx.require(ctx.ne(per[0], per[-1]))
    arg = list(per) if given > 1 else per[0]
    srf = _q(gs.SRF, mod, generator="Fourier", period=arg, mode_no=[4, 2][:given] if given > 1 else 2, seed=s)
    full = list(per) + [per[-1]] * (dim - given)
    g = srf.generator
    ctx.ensure("period-filled-with-last-value", ctx.And(ctx.shape_eq(g.period, (dim,)), ctx.eq(g.period, np.array(full, dtype=object)
                                                                                                 if ctx.mode == "sym" else np.array(full, dtype=float))))
    want_modes = ([4, 2][:given] if given > 1 else [2]) + [([4, 2][:given] if given > 1 else [2])[-1]] * (dim - given)
    ctx.ensure("mode_no-filled-with-last-value", list(g.mode_no) == want_modes)
    _periodic(ctx, srf, dim, full)


@contract(P, "Fourier.update[several-settings-at-once]/periodic-for-new-settings",
          params=[{"dim": d, "what": w} for d in (1, 2) for w in ("period+same-mode_no", "model+same-mode_no", "period+new-mode_no")
                  if not (d == 1 and w == "model+same-mode_no")],
          functions=FN, timeout=30, nsamples=2, search=20)
def periodic_after_joint_update(ctx, dim, what):
    """Generator.update takes model, seed, period and mode_no together ('period/mode_no: ... keep the present
    one if None'): passing the present mode numbers again is a legal way to say 'keep them'"""
    mod, s, per, srf = _mk(ctx, dim, [2] * dim)
    srf([[0.5, 1.5]] * dim, store=False)
    g = srf.generator
    if what.startswith("period"):
        per = ctx.reals("per2_", dim, pos=True)
        for p in per:
            ctx.require(ctx.gt(p, 0))
        g.update(period=per, mode_no=[2] * dim if what.endswith("same-mode_no") else [4] + [2] * (dim - 1))
    else:
        mod2, v = _changed_model(ctx, mod, "anis", dim, "beyond")
        g.update(model=mod2, mode_no=[2] * dim)
        srf._model = mod2        # the SRF's model for the position transformation (generator tested directly)
    _periodic(ctx, srf, dim, per)


@contract(P, "Fourier.update/odd-mode-count-rejected", params={"dim": [1, 2]},
          functions=["field/generator.py:Fourier.update"])
def odd_rejected(ctx, dim):
    mod = sym_model(ctx, dim, nugget=False)
    per = ctx.reals("per", dim, pos=True)
    for p in per:
        ctx.require(ctx.gt(p, 0))
    try:
        _q(Fourier, mod, period=per, mode_no=[3] + [2] * (dim - 1), seed=1)
        ok = False
    except ValueError:
        ok = True
    ctx.ensure("ValueError", ok)


@contract(P, "Fourier.period,mode_no/settings-owned-by-the-generator(caller-edits-its-array-afterwards)",
          params=[{"dim": d, "via": v, "what": w} for d in (1, 2, 3) for v in ("Fourier", "SRF", "update")
                  for w in ("period", "mode_no")],
          functions=["field/generator.py:Fourier._fill_to_dim", "field/generator.py:Fourier.update",
                     "field/generator.py:Fourier.__init__"],
          bounded="native run: float64 / int arrays with exactly dim and with dim + 1 entries, one in-place edit, one model change")
def settings_owned(ctx, dim, via, what):
    """update history: the period (mode numbers) GIVEN for an axis stays the period of the field until the user
    changes the setting: an in-place edit of the array the caller handed over is not a change of the setting.  After
    a later model update the field still repeats with the period given"""
    import gstools as gs
    ok = True
    with symrun.native():
        for extra in (0, 1):
            per0 = [6.0, 9.0, 7.5, 4.0][:dim + extra]
            mn0 = [4, 6, 4, 8][:dim + extra]
            per = np.array(per0, dtype=np.double)
            mn = np.array(mn0, dtype=int)
            mod = gs.Gaussian(dim=dim, var=1.3, len_scale=2.0)
            if via == "Fourier":
                g = Fourier(mod, period=per, mode_no=mn, seed=5)
            elif via == "SRF":
                g = gs.SRF(mod, generator="Fourier", period=per, mode_no=mn, seed=5).generator
            else:
                g = Fourier(mod, period=[5.0] * dim, mode_no=[2] * dim, seed=5)
                g.update(period=per, mode_no=mn)
            if what == "period":
                per *= 1.6
            else:
                mn += 2
            g.update(model=gs.Gaussian(dim=dim, var=1.3, len_scale=3.0))
            ref = Fourier(gs.Gaussian(dim=dim, var=1.3, len_scale=3.0), period=per0[:dim], mode_no=mn0[:dim], seed=5)
            ok = ok and np.array_equal(np.asarray(g.period), np.asarray(per0[:dim], dtype=float))
            ok = ok and list(g.mode_no) == mn0[:dim]
            x = np.array([[0.3, 1.1]] * dim)
            shift = x.copy()
            shift[0] += per0[0]
            ok = ok and np.allclose(g(x), ref(x), rtol=1e-10, atol=1e-12) and np.allclose(g(x), g(shift), rtol=1e-9, atol=1e-10)
    ctx.ensure("period,mode_no=as-given;field=fresh-generator;periodic-with-the-given-period", ok)


@contract(P, "Fourier.update[rejected-arguments]/generator-unchanged",
          params=[{"dim": d, "bad": b} for d in (1, 2) for b in ("odd-mode_no", "odd-mode_no-alone")],
          functions=["field/generator.py:Fourier.update", "field/generator.py:Fourier._fill_to_dim"], timeout=30,
          nsamples=2, search=20)
def rejected_update(ctx, dim, bad):
    """update history with a REJECTED update (ValueError): the generator keeps all its settings -- the period it
    reports is still the period of its mode mesh, i.e. the field stays periodic with the period reported"""
    from contracts.c11 import gen_view, views_equal
    mod = sym_model(ctx, dim, nugget=False)
    per = ctx.reals("per", dim, pos=True)
    per2 = ctx.reals("per2_", dim, pos=True)
    for p in list(per) + list(per2):
        ctx.require(ctx.gt(p, 0))
    s = ctx.integer("seed", lo=1, hi=1000)
    g = _q(Fourier, mod, period=per, mode_no=[2] * dim, seed=s)
    kw = {"odd-mode_no": dict(period=per2, mode_no=[3] + [2] * (dim - 1)),
          "odd-mode_no-alone": dict(mode_no=[2] * (dim - 1) + [5])}[bad]
    try:
        g.update(**kw)
        ctx.ensure("ValueError", False)
        ctx.done()
    except ValueError:
        ctx.ensure("ValueError", True)
    fresh = _q(Fourier, mod, period=per, mode_no=[2] * dim, seed=s)
    ctx.ensure("state=generator-with-the-old-settings", views_equal(ctx, gen_view(g), gen_view(fresh)))
