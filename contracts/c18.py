r"""C18 -- normalizers are invertible monotone maps; the mean/normalizer/trend pipeline is exact.

Spec sources: the property statement; the LaTeX of each class docstring in
normalizer/methods.py (transcribed as `spec_norm`), its inverse and its derivative written by
hand from calculus (`spec_denorm`, `spec_deriv`; the hand calculus is cross-checked by a small
mechanical differentiator `D` applying the T4 derivative table to the extracted term of the
real `_normalize`); the documented ranges (`normalize_range` / `denormalize_range` docstrings:
"(-1/lmbda, inf) or (-inf, -1/lmbda)"); the profile normal log-likelihood

    ll(x) = -n/2 (log 2 pi + 1) - n/2 log var(y) + sum_i log y'(x_i),   y = normalize(x)

(maximum-likelihood definition; `kernel_loglikelihood` = ll without the additive constant);
the docstrings of apply_mean_norm_trend / remove_trend_norm_mean / eval_func.

T1 reading of the documented case distinction: the docstrings distinguish "lambda = 0"
("lambda = 2"); the code tests np.isclose(lmbda, 0) (np.isclose(lmbda, 2)).  The branch
structure of the code is modelled exactly; the documented special case is identified with the
code's tolerance window for the transform, its inverse and the ranges.  The derivative and
log-likelihood obligations are stated at the special value itself (lambda = 0, 2 exactly) and
outside the window: strictly inside the window (0 < |lambda| <= 1e-8) the code evaluates the
limit formula for the transform and the general formula for the derivative, which differ by
the factor x^lambda (relative 1e-8 |log x|) -- below the resolution of T1, listed as residue.
"""
import math
import warnings
from fractions import Fraction

import numpy as np
import z3

import gstools as gs
from gstools import normalizer as gn
from gstools.normalizer import tools as ntools
from gstools.normalizer import base as nbase
from gsvc.contract import contract
from gsvc import symrun
from gsvc.symrun import SymReal, SymBool, wrap, symbolic_active
from contracts import axioms as ax

P = "C18"
INF = float("inf")


# ---------------------------------------------------------------------------------------
# local shims (verifier process only): np.isnan / np.abs on object arrays that hold plain
# non-finite floats (NaN output templates, +-inf range ends) next to symbolic values
# ---------------------------------------------------------------------------------------
def _has_obj(x):
    if isinstance(x, (SymReal, SymBool)) or (isinstance(x, np.ndarray) and x.dtype == object):
        return True
    if isinstance(x, (list, tuple)):
        return any(_has_obj(v) for v in x)
    return False


def _nonfinite(v):
    return isinstance(v, (float, np.floating)) and not np.isfinite(v)


def _sh_isnan(x, *a, **kw):
    if symbolic_active() and _has_obj(x):
        arr = np.asarray(x, dtype=object)
        f = lambda v: False if isinstance(v, SymReal) else bool(np.isnan(v))   # noqa: E731
        if arr.ndim == 0:
            return f(arr.item())
        return np.frompyfunc(f, 1, 1)(arr).astype(bool)
    return np.isnan(x, *a, **kw)


def _sh_abs(x, *a, **kw):
    if symbolic_active() and _has_obj(x):
        f = lambda v: abs(float(v)) if _nonfinite(v) else abs(wrap(v))         # noqa: E731
        arr = np.asarray(x, dtype=object)
        if arr.ndim == 0:
            return f(arr.item())
        return np.frompyfunc(f, 1, 1)(arr)
    return np.abs(x, *a, **kw)


def _skeleton(x):
    if isinstance(x, (list, tuple)):
        return [_skeleton(v) for v in x]
    if isinstance(x, np.ndarray):
        return np.zeros(x.shape) if x.dtype != object or x.ndim == 0 else [_skeleton(v) for v in x]
    return 0.0


def _mk_ragged_check(inner, realfn):
    """float conversion of a ragged nested sequence raises ValueError; conversion to an object
    array would silently succeed -- reproduce the float behaviour before delegating"""
    def f(obj, *a, **kw):
        dtype = kw.get("dtype", a[0] if a else None)
        if symbolic_active() and symrun._floaty(dtype) and isinstance(obj, (list, tuple)) and symrun.is_sym(obj):
            np.array(_skeleton(obj), dtype=float)          # raises ValueError if inhomogeneous
        return inner(obj, *a, **kw)
    return f


def install_local_shims():
    if symrun._NP_OVERRIDES.get("isnan") is _sh_isnan:
        return
    for k in ("array", "asarray"):
        symrun._NP_OVERRIDES[k] = _mk_ragged_check(symrun._NP_OVERRIDES[k], getattr(np, k))
    symrun.SHIM_LOG.append("np.array / np.asarray(dtype=float) of a ragged nested sequence with symbolic "
                           "leaves raises ValueError like the float conversion (contracts/c18.py)")
    symrun._NP_OVERRIDES["isnan"] = _sh_isnan
    for k in ("abs", "absolute", "fabs"):
        symrun._NP_OVERRIDES[k] = _sh_abs
    symrun.SHIM_LOG.append("np.isnan / np.abs: object arrays holding plain NaN / +-inf floats next to "
                           "symbolic reals (contracts/c18.py)")


install_local_shims()


def _quiet(f, *a, **k):
    with warnings.catch_warnings():
        warnings.simplefilter("ignore")
        return f(*a, **k)


def arr(ctx, xs):
    """1-d array of the given values (object dtype in symbolic runs, float natively)"""
    return np.array(list(xs), dtype=object if ctx.mode == "sym" else float)


def lemma(ctx, name, cond, **kw):
    """an obligation whose formula is returned for later `using=` clauses.  Unlike ctx.lemma it is
    NOT added to the path assumptions: a lemma that is false for the code under verification must
    fail as an obligation, not make the path vacuous"""
    if ctx.mode == "conc":
        return ctx.ensure(name, cond)
    f = symrun.fbool(cond)
    ctx.ensure(name, f, **kw)
    return f


def is_nan_leaf(v):
    return isinstance(v, (float, np.floating)) and v != v


def lazy_ite(ctx, c, fa, fb):
    """if-then-else of the spec side; natively only the selected branch is evaluated"""
    if ctx.mode == "conc":
        return fa() if ctx._b(c) else fb()
    return ctx.m.ite(c, fa(), fb())


def isclose(ctx, a, b):
    """np.isclose(a, b) for a concrete b, over the reals: |a - b| <= 1e-8 + 1e-5 |b|"""
    tol = Fraction(1, 10 ** 8) + Fraction(1, 10 ** 5) * abs(Fraction(b))
    if ctx.mode == "conc":
        return bool(np.isclose(a, b))
    return ctx.le(ctx.m.abs(a - b), tol)


# ---------------------------------------------------------------------------------------
# the documented transformations (docstrings of normalizer/methods.py), x |-> y
# ---------------------------------------------------------------------------------------
def _bc(ctx, u, lam, special=None):
    """Box-Cox kernel of the docstrings: (u^lam - 1)/lam, log u for lam = 0 (`special`: the
    documented special case, by default lam = 0 read as isclose(lam, 0))"""
    m = ctx.m
    special = isclose(ctx, lam, 0) if special is None else special
    return lazy_ite(ctx, special, lambda: m.log(u), lambda: (m.pow(u, lam) - 1) / lam)


def _bc_inv(ctx, y, lam, special=None):
    """inverse of the Box-Cox kernel: (1 + lam y)^(1/lam), exp y for lam = 0"""
    m = ctx.m
    special = isclose(ctx, lam, 0) if special is None else special
    return lazy_ite(ctx, special, lambda: m.exp(y), lambda: m.pow(1 + lam * y, 1 / lam))


def _bc_der(ctx, u, lam, special=None):
    """d/du of the Box-Cox kernel: u^(lam-1) (lam != 0), 1/u (lam = 0)"""
    m = ctx.m
    special = isclose(ctx, lam, 0) if special is None else special
    return lazy_ite(ctx, special, lambda: 1 / u, lambda: m.pow(u, lam - 1))


def spec_norm(ctx, cls, par, x):
    m = ctx.m
    lam = par.get("lmbda")
    if cls == "LogNormal":
        return m.log(x)
    if cls == "BoxCox":
        return _bc(ctx, x, lam)
    if cls == "BoxCoxShift":
        return _bc(ctx, x + par["shift"], lam)
    if cls == "YeoJohnson":
        return lazy_ite(ctx, ctx.ge(x, 0), lambda: _bc(ctx, x + 1, lam),
                        lambda: -_bc(ctx, m.abs(x) + 1, 2 - lam, isclose(ctx, lam, 2)))
    if cls == "Modulus":
        sgn = lazy_ite(ctx, ctx.gt(x, 0), lambda: 1, lambda: lazy_ite(ctx, ctx.lt(x, 0), lambda: -1, lambda: 0))
        return sgn * _bc(ctx, m.abs(x) + 1, lam)
    if cls == "Manly":
        return lazy_ite(ctx, isclose(ctx, lam, 0), lambda: x, lambda: (m.exp(lam * x) - 1) / lam)
    raise KeyError(cls)


def spec_denorm(ctx, cls, par, y):
    """the inverse map, by solving y = spec_norm(x) for x"""
    m = ctx.m
    lam = par.get("lmbda")
    if cls == "LogNormal":
        return m.exp(y)
    if cls == "BoxCox":
        return _bc_inv(ctx, y, lam)
    if cls == "BoxCoxShift":
        return _bc_inv(ctx, y, lam) - par["shift"]
    if cls == "YeoJohnson":
        return lazy_ite(ctx, ctx.ge(y, 0), lambda: _bc_inv(ctx, y, lam) - 1,
                        lambda: 1 - _bc_inv(ctx, -y, 2 - lam, isclose(ctx, lam, 2)))
    if cls == "Modulus":
        sgn = lazy_ite(ctx, ctx.gt(y, 0), lambda: 1, lambda: lazy_ite(ctx, ctx.lt(y, 0), lambda: -1, lambda: 0))
        return sgn * (_bc_inv(ctx, m.abs(y), lam) - 1)
    if cls == "Manly":
        return lazy_ite(ctx, isclose(ctx, lam, 0), lambda: y, lambda: m.log(1 + lam * y) / lam)
    raise KeyError(cls)


def spec_deriv(ctx, cls, par, x):
    """dy/dx of spec_norm by the chain rule (hand calculus; cross-checked mechanically by `D`)"""
    m = ctx.m
    lam = par.get("lmbda")
    if cls == "LogNormal":
        return 1 / x
    if cls == "BoxCox":
        return _bc_der(ctx, x, lam)
    if cls == "BoxCoxShift":
        return _bc_der(ctx, x + par["shift"], lam)
    if cls == "YeoJohnson":
        # x < 0: d/dx [-k(1 - x; 2 - lam)] = k'(1 - x; 2 - lam)
        return lazy_ite(ctx, ctx.ge(x, 0), lambda: _bc_der(ctx, x + 1, lam),
                        lambda: _bc_der(ctx, m.abs(x) + 1, 2 - lam, isclose(ctx, lam, 2)))
    if cls == "Modulus":
        # sgn(x) k(|x| + 1): derivative sgn(x)^2 k'(|x| + 1) = k'(|x| + 1), also at 0 (one-sided)
        return _bc_der(ctx, m.abs(x) + 1, lam)
    if cls == "Manly":
        return lazy_ite(ctx, isclose(ctx, lam, 0), lambda: 1, lambda: m.exp(lam * x))
    raise KeyError(cls)


def doc_normalize_range(ctx, cls, par):
    if cls in ("LogNormal", "BoxCox"):
        return (0.0, INF)
    if cls == "BoxCoxShift":
        return (-par["shift"], INF)
    return (-INF, INF)


BRANCHES = {
    "LogNormal": ["-"],
    "BoxCox": ["zero", "neg", "pos"],
    "BoxCoxShift": ["zero", "neg", "pos"],
    "YeoJohnson": ["zero", "two", "neg", "mid", "high"],
    "Modulus": ["zero", "neg", "pos"],
    "Manly": ["zero", "neg", "pos"],
}
CB = [{"cls": c, "branch": b} for c, bs in BRANCHES.items() for b in bs]
SRC = "normalizer/methods.py:"


def doc_denormalize_range(ctx, cls, par, branch):
    """documented: (-1/lmbda, inf) or (-inf, -1/lmbda); all reals for lmbda = 0 and for the
    classes that do not document a parameter-dependent range"""
    if cls in ("BoxCox", "BoxCoxShift", "Manly"):
        lam = par["lmbda"]
        if branch == "zero":
            return (-INF, INF)
        return (-INF, -1 / lam) if branch == "neg" else (-1 / lam, INF)
    # YeoJohnson / Modulus: the image of the documented transform (C18: "out-of-range inputs give NaN")
    if cls == "YeoJohnson" and branch in ("neg", "high"):
        lam = par["lmbda"]
        return (-INF, -1 / lam) if branch == "neg" else (1 / (2 - lam), INF)
    if cls == "Modulus" and branch == "neg":
        lam = par["lmbda"]
        return (1 / lam, -1 / lam)
    return (-INF, INF)


def in_image(ctx, cls, par, y):
    """y lies in the image of the documented transform over its input range (solvability of
    y = spec_norm(x)): the base of the inverse power / argument of the inverse log is positive"""
    m = ctx.m
    lam = par.get("lmbda")
    if cls == "LogNormal":
        return ctx.true()
    if cls in ("BoxCox", "BoxCoxShift", "Manly"):
        return ctx.Or(isclose(ctx, lam, 0), ctx.gt(1 + lam * y, 0))
    if cls == "YeoJohnson":
        return ctx.And(ctx.Implies(ctx.ge(y, 0), ctx.Or(isclose(ctx, lam, 0), ctx.gt(1 + lam * y, 0))),
                       ctx.Implies(ctx.lt(y, 0), ctx.Or(isclose(ctx, lam, 2), ctx.gt(1 - (2 - lam) * y, 0))))
    if cls == "Modulus":
        return ctx.Or(isclose(ctx, lam, 0), ctx.gt(1 + lam * m.abs(y), 0))
    raise KeyError(cls)


def in_open(ctx, v, rng):
    lo, hi = rng
    cs = []
    if not _nonfinite(lo):
        cs.append(ctx.gt(v, lo))
    elif lo > 0:
        cs.append(False)
    if not _nonfinite(hi):
        cs.append(ctx.lt(v, hi))
    elif hi < 0:
        cs.append(False)
    return ctx.And(*cs)


def range_eq(ctx, got, want):
    cs = []
    for g, w in zip(got, want):
        if _nonfinite(g) or _nonfinite(w):
            cs.append(bool(_nonfinite(g) and _nonfinite(w) and (g > 0) == (w > 0)))
        else:
            cs.append(ctx.eq(g, w))
    return ctx.And(*cs)


TOL2 = Fraction(1, 10 ** 8) + Fraction(2, 10 ** 5)


def make(ctx, cls, branch, exact=False):
    """the real normalizer object with symbolic parameters restricted to one documented case.
    exact=True: the special values themselves (lambda = 0, 2) instead of the tolerance windows"""
    par = {}
    if cls != "LogNormal":
        if branch == "zero":
            lam = ctx.real("lmbda", choices=[0.0]) if exact else ctx.real("lmbda", lo=-1e-8, hi=1e-8)
            ctx.require(ctx.eq(lam, 0) if exact else isclose(ctx, lam, 0), "lmbda (close to) 0")
        elif branch == "two":
            lam = ctx.real("lmbda", choices=[2.0]) if exact else ctx.real("lmbda", lo=2 - 2e-5, hi=2 + 2e-5)
            ctx.require(ctx.eq(lam, 2) if exact else isclose(ctx, lam, 2), "lmbda (close to) 2")
        elif branch == "neg":
            lam = ctx.real("lmbda", lo=-3.0, hi=-0.05)
            ctx.require(ctx.And(ctx.lt(lam, 0), ctx.Not(isclose(ctx, lam, 0))))
        elif branch == "pos":
            lam = ctx.real("lmbda", lo=0.05, hi=3.0)
            ctx.require(ctx.And(ctx.gt(lam, 0), ctx.Not(isclose(ctx, lam, 0))))
        elif branch == "mid":
            lam = ctx.real("lmbda", lo=0.05, hi=1.95)
            ctx.require(ctx.And(ctx.gt(lam, 0), ctx.lt(lam, 2), ctx.Not(isclose(ctx, lam, 0)),
                                ctx.Not(isclose(ctx, lam, 2))))
        elif branch == "high":
            lam = ctx.real("lmbda", lo=2.05, hi=4.0)
            ctx.require(ctx.And(ctx.gt(lam, 2), ctx.Not(isclose(ctx, lam, 2))))
        else:
            raise KeyError(branch)
        par["lmbda"] = lam
    if cls == "BoxCoxShift":
        par["shift"] = ctx.real("shift")
    return getattr(gn, cls)(**par), par


def in_range_input(ctx, cls, par, name="x"):
    """a symbolic input inside the documented normalize_range (parametrised: x = lo + u, u > 0)"""
    if cls in ("LogNormal", "BoxCox", "BoxCoxShift"):
        u = ctx.real(name + "_above_lo", pos=True)
        ctx.require(ctx.gt(u, 0))
        return u - par["shift"] if cls == "BoxCoxShift" else u
    return ctx.real(name)


# ---------------------------------------------------------------------------------------
# mechanical differentiation (T4 derivative table + sum/product/quotient/chain rules)
# ---------------------------------------------------------------------------------------
def _contains(t, x, memo):
    k = t.get_id()
    if k in memo:
        return memo[k]
    r = t.eq(x) or any(_contains(c, x, memo) for c in t.children())
    memo[k] = r
    return r


def D(t, x):
    """d t / d x for a z3 real term built from + - * / ite, exp, log, pow, sqrt (piecewise terms
    are differentiated branch-wise: valid away from the switching points)"""
    memo, cmemo = {}, {}
    zero, one = z3.RealVal(0), z3.RealVal(1)

    def dep(u):
        return _contains(u, x, cmemo)

    def d(u):
        k = u.get_id()
        if k in memo:
            return memo[k][1]
        r = _d(u)
        memo[k] = (u, r)
        return r

    def _d(u):
        if u.eq(x):
            return one
        if not dep(u):
            return zero
        kind = u.decl().kind()
        ch = u.children()
        if kind == z3.Z3_OP_ADD:
            return z3.Sum([d(c) for c in ch if dep(c)])
        if kind == z3.Z3_OP_SUB:
            r = d(ch[0])
            for c in ch[1:]:
                r = r - d(c)
            return r
        if kind == z3.Z3_OP_UMINUS:
            return -d(ch[0])
        if kind == z3.Z3_OP_MUL:
            terms = []
            for i, c in enumerate(ch):
                if dep(c):
                    others = [o for j, o in enumerate(ch) if j != i]
                    terms.append(z3.Product([d(c)] + others) if others else d(c))
            return z3.Sum(terms) if len(terms) > 1 else terms[0]
        if kind == z3.Z3_OP_DIV:
            a, b = ch
            if not dep(b):
                return d(a) / b
            return (d(a) * b - a * d(b)) / (b * b)
        if kind == z3.Z3_OP_ITE:
            return z3.If(ch[0], d(ch[1]), d(ch[2]))
        if kind == z3.Z3_OP_UNINTERPRETED:
            name = u.decl().name()
            if name == "exp":
                return u * d(ch[0])
            if name == "log":
                return d(ch[0]) / ch[0]
            if name == "sqrt":
                return d(ch[0]) / (2 * u)
            if name == "pow":
                b, e = ch
                if not dep(e):          # d b^e = e b^(e-1) b'
                    return e * symrun.uf("pow", SymReal(b), SymReal(e - 1)).t * d(b)
                lg = symrun.uf("log", SymReal(b)).t
                return u * (d(e) * lg + e * d(b) / b)
        raise symrun.Unsupported("no derivative rule for %s" % u.decl())

    return d(t)


# ---------------------------------------------------------------------------------------
# hints: textbook power/exp/log facts at the terms that occur (T4)
# ---------------------------------------------------------------------------------------
def _kernel_hints(ctx, u, lam, y=None):
    """facts about the Box-Cox kernel at base u > 0 with exponent lam"""
    ax.pow_vs_one(ctx, u, lam)


def hints_forward(ctx, cls, par, x):
    """instances needed for denormalize(normalize(x)) = x"""
    m = ctx.m
    lam = par.get("lmbda")
    if cls in ("BoxCox", "BoxCoxShift"):
        u = x + par["shift"] if cls == "BoxCoxShift" else x
        ax.pow_root(ctx, u, lam)
    elif cls == "YeoJohnson":
        ax.pow_root(ctx, x + 1, lam)
        ax.pow_root(ctx, 1 - x, 2 - lam)
        ax.pow_vs_one(ctx, x + 1, lam)
        ax.pow_vs_one(ctx, 1 - x, 2 - lam)
    elif cls == "Modulus":
        ax.pow_root(ctx, m.abs(x) + 1, lam)
        ax.pow_vs_one(ctx, m.abs(x) + 1, lam)


def hints_backward(ctx, cls, par, y):
    """instances needed for normalize(denormalize(y)) = y"""
    m = ctx.m
    lam = par.get("lmbda")
    if cls in ("BoxCox", "BoxCoxShift"):
        ax.pow_unroot(ctx, 1 + lam * y, lam)
    elif cls == "YeoJohnson":
        ax.pow_unroot(ctx, 1 + lam * y, lam)
        ax.pow_unroot(ctx, 1 - (2 - lam) * y, 2 - lam)
        ax.pow_vs_one(ctx, 1 + lam * y, 1 / lam)
        ax.pow_vs_one(ctx, 1 - (2 - lam) * y, 1 / (2 - lam))
    elif cls == "Modulus":
        ax.pow_unroot(ctx, 1 + lam * m.abs(y), lam)
        ax.pow_vs_one(ctx, 1 + lam * m.abs(y), 1 / lam)


# ---------------------------------------------------------------------------------------
# 1. the code computes the documented transform, inverse and derivative; monotone
# ---------------------------------------------------------------------------------------
def _fn(cls, *names):
    return [SRC + "%s.%s" % (cls, n) for n in names]


@contract(P, "methods._normalize/documented-transform", params=CB,
          functions=[SRC + "<cls>._normalize", SRC + "<cls>._denormalize"])
def documented_transform(ctx, cls, branch):
    norm, par = make(ctx, cls, branch)
    x = in_range_input(ctx, cls, par)
    got = norm._normalize(arr(ctx, [x]))[0]
    ctx.ensure("normalize=documented-formula", ctx.eq(got, spec_norm(ctx, cls, par, x)))
    y = ctx.real("y")
    ctx.require(in_image(ctx, cls, par, y), "y in the image of the transform")
    back = norm._denormalize(arr(ctx, [y]))[0]
    ctx.ensure("denormalize=documented-inverse-formula", ctx.eq(back, spec_denorm(ctx, cls, par, y)))


@contract(P, "methods._derivative/true-derivative", params=CB,
          functions=[SRC + "<cls>._derivative", SRC + "<cls>._normalize"])
def derivative(ctx, cls, branch):
    norm, par = make(ctx, cls, branch, exact=True)
    x = in_range_input(ctx, cls, par)
    xa = arr(ctx, [x])
    der = norm._derivative(xa)[0]
    want = spec_deriv(ctx, cls, par, x)
    ctx.ensure("derivative=calculus-derivative-of-documented-transform", ctx.eq(der, want))
    ctx.ensure("derivative>0(strictly-increasing)", ctx.gt(der, 0))
    if ctx.mode == "sym":
        # mechanical: differentiate the extracted term of the REAL _normalize w.r.t. the input
        xin = ctx.path.inputs["x_above_lo" if "x_above_lo" in ctx.path.inputs else "x"]
        if cls in ("Modulus",):
            ctx.require(ctx.ne(x, 0), "away from the kink of |x| (one-sided limits: see C1-at-0)")
        yt = norm._normalize(xa)[0]
        dyt = SymReal(D(symrun.lift(yt), xin))
        ctx.ensure("derivative=mechanical-derivative-of-_normalize", ctx.eq(der, dyt))
    else:
        ctx.ensure("derivative=mechanical-derivative-of-_normalize", ctx.eq(der, want))


@contract(P, "methods._normalize/strictly-increasing", params=CB, functions=[SRC + "<cls>._normalize"])
def increasing(ctx, cls, branch):
    norm, par = make(ctx, cls, branch)
    x1 = in_range_input(ctx, cls, par, "x1")
    x2 = in_range_input(ctx, cls, par, "x2")
    ctx.require(ctx.lt(x1, x2))
    m = ctx.m
    lam = par.get("lmbda")
    if cls in ("YeoJohnson", "Modulus"):
        for x in (x1, x2):
            ax.pow_vs_one(ctx, m.abs(x) + 1, lam)
            if cls == "YeoJohnson":
                ax.pow_vs_one(ctx, m.abs(x) + 1, 2 - lam)
    y = norm._normalize(arr(ctx, [x1, x2]))
    ctx.ensure("x1<x2=>normalize(x1)<normalize(x2)", ctx.lt(y[0], y[1]))


@contract(P, "methods._normalize/C1-at-0", params=[p for p in CB if p["cls"] in ("YeoJohnson", "Modulus")],
          functions=[SRC + "<cls>._normalize", SRC + "<cls>._derivative"])
def c1_at_zero(ctx, cls, branch):
    """the two pieces (x >= 0, x < 0) meet at 0 with value 0 and one-sided derivatives 1 each, so
    the branch-wise derivative is the derivative at the switching point too"""
    norm, par = make(ctx, cls, branch, exact=True)
    lam = par["lmbda"]
    z = ctx.real("zero", choices=[0.0])
    ctx.require(ctx.eq(z, 0))
    ctx.ensure("normalize(0)=0", ctx.eq(norm._normalize(arr(ctx, [z]))[0], 0))
    ctx.ensure("derivative(0)=1", ctx.eq(norm._derivative(arr(ctx, [z]))[0], 1))
    # one-sided derivative formulas of the documented pieces at 0
    ctx.ensure("right-derivative(0)=1", ctx.eq(_bc_der(ctx, z + 1, lam), 1))
    if cls == "YeoJohnson":
        ctx.ensure("left-derivative(0)=1", ctx.eq(_bc_der(ctx, z + 1, 2 - lam, isclose(ctx, lam, 2)), 1))
    else:
        ctx.ensure("left-derivative(0)=1", ctx.eq(_bc_der(ctx, z + 1, lam), 1))


# ---------------------------------------------------------------------------------------
# 2. round trips and ranges
# ---------------------------------------------------------------------------------------
@contract(P, "methods._denormalize/round-trip", params=CB,
          functions=[SRC + "<cls>._denormalize", SRC + "<cls>._normalize"])
def round_trip(ctx, cls, branch):
    """denormalising a normalised value returns the value, for every x in the documented input
    range"""
    norm, par = make(ctx, cls, branch)
    x = in_range_input(ctx, cls, par)
    hints_forward(ctx, cls, par, x)
    y = norm._normalize(arr(ctx, [x]))
    back = norm._denormalize(y)[0]
    ctx.ensure("denormalize(normalize(x))=x", ctx.eq(back, x))


# the classes whose docstrings give a parameter dependent output range are checked on all of the
# declared range; YeoJohnson and Modulus declare all reals although the image of the transform is
# bounded for lmbda < 0 (and lmbda > 2): there the converse is stated on the image
CONVERSE_ON_DECLARED = ("LogNormal", "BoxCox", "BoxCoxShift", "Manly")


@contract(P, "methods._normalize/converse-round-trip", params=CB,
          functions=[SRC + "<cls>._denormalize", SRC + "<cls>._normalize", SRC + "<cls>.denormalize_range"])
def converse(ctx, cls, branch):
    norm, par = make(ctx, cls, branch)
    y = ctx.real("y")
    if cls in CONVERSE_ON_DECLARED:
        ctx.require(in_open(ctx, y, norm.denormalize_range), "y in the declared denormalize_range")
    else:
        ctx.require(in_image(ctx, cls, par, y), "y in the image of the transform")
    hints_backward(ctx, cls, par, y)
    x = norm._denormalize(arr(ctx, [y]))
    ctx.ensure("denormalize(y)-in-normalize_range", in_open(ctx, x[0], doc_normalize_range(ctx, cls, par)))
    back = norm._normalize(x)[0]
    ctx.ensure("normalize(denormalize(y))=y", ctx.eq(back, y))


@contract(P, "methods.denormalize_range/valid-ranges", params=CB,
          functions=[SRC + "<cls>.denormalize_range", SRC + "<cls>.normalize_range", SRC + "<cls>._normalize"])
def ranges(ctx, cls, branch):
    """normalize maps the input range into the declared output range: the public round trip
    normalize -> denormalize does not discard (NaN) any valid value"""
    norm, par = make(ctx, cls, branch)
    ctx.ensure("normalize_range=documented", range_eq(ctx, norm.normalize_range, doc_normalize_range(ctx, cls, par)))
    x = in_range_input(ctx, cls, par)
    m = ctx.m
    lam = par.get("lmbda")
    if cls in ("YeoJohnson", "Modulus"):
        ax.pow_vs_one(ctx, m.abs(x) + 1, lam)
    y = norm._normalize(arr(ctx, [x]))[0]
    ctx.ensure("normalize(x)-in-denormalize_range", in_open(ctx, y, norm.denormalize_range))
    ctx.ensure("normalize(x)-in-image", in_image(ctx, cls, par, y))


@contract(P, "methods.denormalize_range/documented-range",
          params=[p for p in CB if p["cls"] in ("BoxCox", "BoxCoxShift", "Manly", "YeoJohnson", "Modulus")],
          functions=[SRC + "<cls>.denormalize_range"])
def documented_range(ctx, cls, branch):
    norm, par = make(ctx, cls, branch)
    ctx.ensure("denormalize_range=documented",
               range_eq(ctx, norm.denormalize_range, doc_denormalize_range(ctx, cls, par, branch)))


# ---------------------------------------------------------------------------------------
# 3. public entry points: _check_input maps out-of-range entries to NaN and leaves the rest
#    (NaN *inputs* cannot enter symbolic terms: native probes below)
# ---------------------------------------------------------------------------------------
def _entry_ok(ctx, got, x, rng, want_fn):
    """entry is NaN exactly when x is outside the open range, else equals want_fn()"""
    if is_nan_leaf(got):
        return ctx.Not(in_open(ctx, x, rng))
    return ctx.And(in_open(ctx, x, rng), ctx.eq(got, want_fn()))


FN_PUB = ["normalizer/base.py:Normalizer.normalize", "normalizer/base.py:Normalizer.denormalize",
          "normalizer/base.py:Normalizer.derivative", "normalizer/base.py:Normalizer._check_input"]


@contract(P, "Normalizer.normalize/out-of-range->NaN,in-range->value", params=CB, functions=FN_PUB,
          bounded="2 data entries")
def public_normalize(ctx, cls, branch):
    norm, par = make(ctx, cls, branch)
    xs = [ctx.real("x0"), ctx.real("x1")]
    rng = norm.normalize_range
    out = _quiet(norm.normalize, arr(ctx, xs))
    ctx.ensure("shape", ctx.shape_eq(out, (2,)))
    for i, x in enumerate(xs):
        ctx.ensure("NaN-iff-out-of-range,else-transform",
                   _entry_ok(ctx, out[i], x, rng, lambda: spec_norm(ctx, cls, par, x)))


@contract(P, "Normalizer.derivative/out-of-range->NaN,in-range->value", params=CB, functions=FN_PUB,
          bounded="2 data entries")
def public_derivative(ctx, cls, branch):
    norm, par = make(ctx, cls, branch, exact=True)
    xs = [ctx.real("x0"), ctx.real("x1")]
    rng = norm.normalize_range
    der = _quiet(norm.derivative, arr(ctx, xs))
    ctx.ensure("shape", ctx.shape_eq(der, (2,)))
    for i, x in enumerate(xs):
        ctx.ensure("NaN-iff-out-of-range,else-derivative",
                   _entry_ok(ctx, der[i], x, rng, lambda: spec_deriv(ctx, cls, par, x)))


@contract(P, "Normalizer.denormalize/out-of-range->NaN,in-range->value", params=CB, functions=FN_PUB,
          bounded="2 data entries")
def public_denormalize(ctx, cls, branch):
    norm, par = make(ctx, cls, branch)
    ys = [ctx.real("y0"), ctx.real("y1")]
    back = _quiet(norm.denormalize, arr(ctx, ys))
    ctx.ensure("shape", ctx.shape_eq(back, (2,)))
    for i, y in enumerate(ys):
        # the valid range is the image of the documented transform (where y = normalize(x) is solvable), whatever
        # range the class declares: "NaN and out-of-range inputs give NaN"
        valid = ctx.And(in_open(ctx, y, norm.denormalize_range), in_image(ctx, cls, par, y))
        if is_nan_leaf(back[i]):
            ok = ctx.Not(valid)
        else:
            ok = ctx.And(valid, ctx.eq(back[i], spec_denorm(ctx, cls, par, y)))
        ctx.ensure("NaN-iff-out-of-range,else-inverse", ok)


@contract(P, "Normalizer.denormalize/public-round-trip", params=CB,
          functions=["normalizer/base.py:Normalizer.normalize", "normalizer/base.py:Normalizer.denormalize"])
def public_round_trip(ctx, cls, branch):
    """the headline statement through the public methods"""
    norm, par = make(ctx, cls, branch)
    x = in_range_input(ctx, cls, par)
    hints_forward(ctx, cls, par, x)
    m = ctx.m
    if cls in ("YeoJohnson", "Modulus"):
        ax.pow_vs_one(ctx, m.abs(x) + 1, par["lmbda"])
    y = _quiet(norm.normalize, arr(ctx, [x]))
    back = _quiet(norm.denormalize, y)
    ok = (not is_nan_leaf(y[0])) and (not is_nan_leaf(back[0]))
    ctx.ensure("denormalize(normalize(x))=x(no-NaN)", ctx.eq(back[0], x) if ok else False)


# ---------------------------------------------------------------------------------------
# 4. log-likelihood = profile normal log-likelihood of the transformed data; what `fit` maximises
# ---------------------------------------------------------------------------------------
DERIV_FLOOR = 1e-16     # the code evaluates log(max(1e-16, y')) to avoid log(0) in floats


def spec_kernel_ll(ctx, cls, par, xs):
    """-n/2 log var(y) + sum log y'   (var: maximum-likelihood = population variance)"""
    m = ctx.m
    n = len(xs)
    ys = [spec_norm(ctx, cls, par, x) for x in xs]
    mean = sum(ys) / n
    var = sum((y - mean) * (y - mean) for y in ys) / n
    return -n / 2 * m.log(var) + sum(m.log(spec_deriv(ctx, cls, par, x)) for x in xs)


def spec_ll(ctx, cls, par, xs):
    m = ctx.m
    n = len(xs)
    return -n / 2 * (m.log(2 * m.pi) + 1) + spec_kernel_ll(ctx, cls, par, xs)


def _data(ctx, cls, par, n):
    xs = [in_range_input(ctx, cls, par, "x%d" % i) for i in range(n)]
    for x in xs:
        ctx.require(ctx.ge(spec_deriv(ctx, cls, par, x), DERIV_FLOOR),
                    "derivative above the floor 1e-16 of the code's log guard")
    return xs


@contract(P, "Normalizer.loglikelihood/profile-normal-loglikelihood",
          params=[dict(p, n=n) for p in CB for n in (1, 2, 3)],
          functions=["normalizer/base.py:Normalizer.loglikelihood", "normalizer/base.py:Normalizer._loglikelihood",
                     "normalizer/base.py:Normalizer.kernel_loglikelihood",
                     "normalizer/base.py:Normalizer._kernel_loglikelihood"],
          bounded="n<=3 data points", timeout=90)
def loglikelihood(ctx, cls, branch, n):
    norm, par = make(ctx, cls, branch, exact=True)
    xs = _data(ctx, cls, par, n)
    with np.errstate(all="ignore"):
        ll = _quiet(norm.loglikelihood, arr(ctx, xs))
        kll = _quiet(norm.kernel_loglikelihood, arr(ctx, xs))
        ctx.ensure("loglikelihood=profile-normal-loglikelihood", ctx.eq(ll, spec_ll(ctx, cls, par, xs)))
        ctx.ensure("kernel_loglikelihood=loglikelihood-without-constant",
                   ctx.eq(kll, spec_kernel_ll(ctx, cls, par, xs)))
        if n == 2:
            ctx.ensure("likelihood=exp(loglikelihood)", ctx.eq(_quiet(norm.likelihood, arr(ctx, xs)), ctx.m.exp(ll)))


@contract(P, "Normalizer.loglikelihood[missing-values]/likelihood-of-the-valid-data",
          params=[dict(p, where=w) for p in CB for w in ("middle", "last")],
          functions=["normalizer/base.py:Normalizer.loglikelihood", "normalizer/base.py:Normalizer.kernel_loglikelihood",
                     "normalizer/base.py:Normalizer._check_input"],
          bounded="2 valid data points and one NaN", timeout=90)
def loglikelihood_nan(ctx, cls, branch, where):
    """NaN entries are no data ('NaN ... inputs give NaN' for the transforms; the likelihood is that of the
    remaining values): the sample size in the maximum-likelihood definition is the number of VALID values"""
    norm, par = make(ctx, cls, branch, exact=True)
    xs = _data(ctx, cls, par, 2)
    data = [xs[0], float("nan"), xs[1]] if where == "middle" else [xs[0], xs[1], float("nan")]
    with np.errstate(all="ignore"):
        ll = _quiet(norm.loglikelihood, arr(ctx, data))
        kll = _quiet(norm.kernel_loglikelihood, arr(ctx, data))
    ctx.ensure("loglikelihood(data-with-NaN)=loglikelihood(valid-data)", ctx.eq(ll, spec_ll(ctx, cls, par, xs)))
    ctx.ensure("kernel_loglikelihood(data-with-NaN)=kernel_loglikelihood(valid-data)",
               ctx.eq(kll, spec_kernel_ll(ctx, cls, par, xs)))


class _FakeOpt:
    """stands in for scipy.optimize inside normalizer.base while `fit` runs: records the
    objective handed to the optimiser and returns a havoc'd optimum"""

    def __init__(self, xopt):
        self.xopt = xopt
        self.seen = {}

    def minimize_scalar(self, fun, args=(), **kw):
        self.seen.update(which="minimize_scalar", fun=fun, args=args, kw=kw)
        return type("Res", (), {"x": self.xopt[0]})()

    def minimize(self, fun, args=(), **kw):
        self.seen.update(which="minimize", fun=fun, args=args, kw=kw)
        return type("Res", (), {"x": arr_like(self.xopt)})()


def arr_like(v):
    return np.array(list(v), dtype=object if any(isinstance(t, SymReal) for t in v) else float)


@contract(P, "Normalizer.fit/maximises-documented-kernel-loglikelihood", params=CB,
          functions=["normalizer/base.py:Normalizer.fit"], bounded="n=2 data points")
def fit_objective(ctx, cls, branch):
    """`fit` hands the optimiser exactly par |-> -kernel_loglikelihood(data; par), starts it as
    documented, stores and returns the optimiser's result (that scipy FINDS the maximiser is not
    decidable: residue)"""
    norm = getattr(gn, cls)()
    names = sorted(norm.default_parameter)
    _, par = make(ctx, cls, branch, exact=True)          # the test parameters
    xs = _data(ctx, cls, par, 2)
    xopt = [ctx.real("opt_" + k) for k in names]
    fake = _FakeOpt(xopt)
    real_spo = nbase.spo
    nbase.spo = fake
    try:
        with np.errstate(all="ignore"):
            res = _quiet(norm.fit, arr(ctx, xs))
    finally:
        nbase.spo = real_spo
    if not names:
        ctx.ensure("no-parameters->empty-result", res == {} and not fake.seen)
        return
    ctx.ensure("optimiser", fake.seen["which"] == ("minimize_scalar" if len(names) == 1 else "minimize"))
    ctx.ensure("returns-optimum", ctx.And(sorted(res) == names, *[ctx.eq(res[k], v) for k, v in zip(names, xopt)]))
    ctx.ensure("stores-optimum", ctx.And(*[ctx.eq(getattr(norm, k), v) for k, v in zip(names, xopt)]))
    if len(names) == 1:
        ctx.ensure("default-bracket(-2,2)", tuple(fake.seen["kw"].get("bracket", ())) == (-2, 2))
        tp = par[names[0]]
    else:
        ctx.ensure("start=current-parameters", ctx.eq(arr_like(fake.seen["kw"]["x0"]), [1, 0]) if names == ["lmbda", "shift"] else False)
        tp = arr_like([par[k] for k in names])
    with np.errstate(all="ignore"):
        val = _quiet(fake.seen["fun"], tp, *fake.seen["args"])
        ctx.ensure("objective=-kernel_loglikelihood(data;par)", ctx.eq(val, -spec_kernel_ll(ctx, cls, par, xs)))


# ---------------------------------------------------------------------------------------
# 5. the pipeline: output = trend + denormalize(mean + raw field), and its inverse
# ---------------------------------------------------------------------------------------
symrun.CONC_FUNCS["udn"] = lambda z: float(np.sinh(z))      # native stand-in of the generic
symrun.CONC_FUNCS["un"] = lambda x: float(np.arcsinh(x))    # normalizer: a bijection of the reals


def _ufmap(ctx, name, data):
    a = np.asarray(data, dtype=object)
    out = np.empty(a.shape, dtype=object)
    for i, v in enumerate(a.ravel().tolist()):
        out.reshape(-1)[i] = ctx.m.fn(name, v)
    return out if ctx.mode == "sym" else out.astype(float)


def pipeline_normalizer(ctx, kind):
    """-> (argument for `normalizer=`, denormalize spec, normalize spec, in-denormalize-range)"""
    m = ctx.m
    if kind == "none":
        return None, (lambda z: z), (lambda x: x), (lambda z: ctx.true())
    if kind == "LogNormal":       # given as a class, as documented for the Field classes
        return gn.LogNormal, (lambda z: m.exp(z)), (lambda x: m.log(x)), (lambda z: ctx.true())
    if kind in ("BoxCox", "YeoJohnson"):
        norm, par = make(ctx, kind, "pos" if kind == "BoxCox" else "mid")
        return (norm, (lambda z: spec_denorm(ctx, kind, par, z)), (lambda x: spec_norm(ctx, kind, par, x)),
                (lambda z: ctx.And(in_open(ctx, z, doc_denormalize_range(ctx, kind, par, "pos")),
                                   in_image(ctx, kind, par, z))))
    if kind == "generic":
        # any normalizer satisfying the round-trip contract proved above, as uninterpreted maps
        class Generic(gn.Normalizer):
            def _denormalize(self, data):
                return _ufmap(ctx, "udn", data)

            def _normalize(self, data):
                return _ufmap(ctx, "un", data)
        return Generic(), (lambda z: m.fn("udn", z)), (lambda x: m.fn("un", x)), (lambda z: ctx.true())
    raise KeyError(kind)


def mean_trend(ctx, tag, kind, dim, vtype):
    """-> (argument, spec function (point coordinates, component) -> value)"""
    if kind == "none":
        return None, (lambda pt, k: 0)
    if kind == "const":
        c = ctx.real(tag + "_c")
        return c, (lambda pt, k: c)
    if kind == "vconst":          # one constant per vector component
        cs = ctx.reals(tag + "_c", dim)
        return arr(ctx, cs), (lambda pt, k: cs[k])
    if kind == "callable":
        co = ctx.reals(tag + "_a", dim)
        off = ctx.real(tag + "_b")
        if vtype == "scalar":
            def f(*pos):
                return sum(a * p for a, p in zip(co, pos)) + off
            return f, (lambda pt, k: sum(a * p for a, p in zip(co, pt)) + off)

        def fv(*pos):           # component k depends on coordinate k
            return np.array([co[k] * pos[k] + off * (k + 1) for k in range(dim)])
        return fv, (lambda pt, k: co[k] * pt[k] + off * (k + 1))
    raise KeyError(kind)


def mesh_points(ctx, mesh, dim, n):
    """-> (pos argument, field shape, {index tuple: point coordinates})"""
    if mesh == "unstructured":
        coords = [ctx.reals("p%d_" % d, n) for d in range(dim)]
        return [list(c) for c in coords], (n,), {(j,): [coords[d][j] for d in range(dim)] for j in range(n)}
    # structured: n points on the first axis, n + 1 on the others (tensor grid, field[i, j, ...]
    # belongs to (x_i, y_j, ...)); equal axis lengths: see `structured_equal_axes`
    lens = [n] + [n + 1 for d in range(1, dim)]
    axes = [ctx.reals("ax%d_" % d, lens[d]) for d in range(dim)]
    idx = {}
    for flat in np.ndindex(*lens):
        idx[tuple(flat)] = [axes[d][flat[d]] for d in range(dim)]
    return tuple(list(a) for a in axes), tuple(lens), idx


_CFG = (("const", "unstructured", "scalar", 3), ("callable", "unstructured", "scalar", 2),
        ("callable", "structured", "scalar", 2), ("const", "structured", "vector", 1),
        ("vconst", "unstructured", "vector", 2), ("callable", "structured", "vector", 1),
        ("callable", "unstructured", "vector", 1), ("none", "unstructured", "scalar", 1))
# power-law normalizers (pairwise power facts; YeoJohnson forks on the sign of every value, twice):
# small shapes only -- the shape logic is independent of the normalizer
_CFG_YJ = (("const", "unstructured", "scalar", 1), ("callable", "unstructured", "scalar", 2),
           ("callable", "unstructured", "vector", 1))
_CFG_YJ1 = (("const", "unstructured", "scalar", 1), ("callable", "unstructured", "scalar", 1))
PIPE = [{"norm": nk, "kind": k, "mesh": ms, "vtype": vt, "n": n}
        for nk in ("none", "LogNormal", "BoxCox", "YeoJohnson", "generic")
        for (k, ms, vt, n) in (_CFG_YJ1 if nk == "YeoJohnson" else _CFG_YJ if nk == "BoxCox" else _CFG)]


def assumed(ctx):
    """the assumptions made so far (symbolic runs), for `using=` clauses"""
    return list(ctx.path.assume) if ctx.mode == "sym" else []


def _pipeline_setup(ctx, norm, kind, mesh, vtype, n):
    dim = 2
    narg, dn, nm, in_dr = pipeline_normalizer(ctx, norm)
    base = assumed(ctx)
    mean, mean_at = mean_trend(ctx, "mean", kind, dim, vtype)
    trend, trend_at = mean_trend(ctx, "trend", kind, dim, vtype)
    pos, shape, pts = mesh_points(ctx, mesh, dim, n)
    fshape = ((dim,) + shape) if vtype == "vector" else shape
    raw = np.empty(fshape, dtype=object)
    cells = []
    for c, flat in enumerate(np.ndindex(*fshape)):
        v = ctx.real("f%d" % c)
        raw[flat] = v
        k, pidx = (flat[0], flat[1:]) if vtype == "vector" else (0, flat)
        cells.append({"idx": flat, "k": k, "pt": pts[tuple(pidx)], "v": v, "hyp": list(base)})
    if ctx.mode == "conc":
        raw = raw.astype(float)
    # valid range: the value handed to denormalize lies in the denormalize range
    for c in cells:
        c["z"] = mean_at(c["pt"], c["k"]) + c["v"]
        c["hyp"].append(ctx.require(in_dr(c["z"]), "mean + field in the denormalize range"))
    return dict(dim=dim, narg=narg, dn=dn, nm=nm, mean=mean, mean_at=mean_at, trend=trend, trend_at=trend_at,
                pos=pos, raw=raw, cells=cells, fshape=fshape)


def _pipe_hints(ctx, norm, S):
    m = ctx.m
    for c in S["cells"]:
        z = c["z"]
        if norm == "generic":       # modular use of the round-trip contract at the evaluated points
            c["hyp"].append(ctx.require(ctx.eq(m.fn("un", m.fn("udn", z)), z),
                                        "normalizer contract: normalize(denormalize(z)) = z"))
        if norm in ("BoxCox", "YeoJohnson"):
            n0 = len(assumed(ctx))
            hints_backward(ctx, norm, {"lmbda": S["narg"].lmbda}, z)
            c["hyp"].extend(assumed(ctx)[n0:])


FN_PIPE = ["normalizer/tools.py:apply_mean_norm_trend", "normalizer/tools.py:remove_trend_norm_mean",
           "tools/misc.py:eval_func", "tools/misc.py:_func_from_single_val", "normalizer/tools.py:_check_normalizer"]


def _using(ctx, c):
    """hypotheses of one cell: parameter requires, its range require, its hints, the path"""
    return (c["hyp"] + list(ctx.path.pc)) if ctx.mode == "sym" else None


@contract(P, "tools.apply_mean_norm_trend/trend+denormalize(mean+field)", params=PIPE, functions=FN_PIPE,
          bounded="dim 2, 1-3 points per axis", timeout=40)
def pipeline(ctx, norm, kind, mesh, vtype, n):
    """scalar fields with the shape check of the functions, vector fields (shape (dim,) + mesh
    shape) with check_shape=False, the way Field.post_field and the transform wrappers call them"""
    S = _pipeline_setup(ctx, norm, kind, mesh, vtype, n)
    _pipe_hints(ctx, norm, S)
    out = _quiet(ntools.apply_mean_norm_trend, S["pos"], S["raw"], mean=S["mean"], normalizer=S["narg"],
                 trend=S["trend"], mesh_type=mesh, value_type=vtype, check_shape=(vtype == "scalar"))
    ctx.ensure("shape", ctx.shape_eq(out, S["fshape"]))
    for c in S["cells"]:
        want = S["trend_at"](c["pt"], c["k"]) + S["dn"](c["z"])
        got = out[c["idx"]]
        ctx.ensure("out=trend+denormalize(mean+field)", False if is_nan_leaf(got) else ctx.eq(got, want),
                   using=_using(ctx, c))
    back = _quiet(ntools.remove_trend_norm_mean, S["pos"], out, mean=S["mean"], normalizer=S["narg"],
                  trend=S["trend"], mesh_type=mesh, value_type=vtype, check_shape=(vtype == "scalar"))
    ctx.ensure("inverse:shape", ctx.shape_eq(back, S["fshape"]))
    for c in S["cells"]:
        got = back[c["idx"]]
        ctx.ensure("remove_trend_norm_mean(apply_mean_norm_trend(f))=f",
                   False if is_nan_leaf(got) else ctx.eq(got, c["v"]), using=_using(ctx, c))


@contract(P, "tools.remove_trend_norm_mean/normalize(field-trend)-mean", params=PIPE, functions=FN_PIPE,
          bounded="dim 2, 1-3 points per axis", timeout=40)
def pipeline_remove(ctx, norm, kind, mesh, vtype, n):
    """the documented order of the inverse direction on its own: subtract trend, normalize,
    subtract mean (here `f` are output-scale values with f - trend in the normalize range)"""
    dim = 2
    narg, dn, nm, _ = pipeline_normalizer(ctx, norm)
    mean, mean_at = mean_trend(ctx, "mean", kind, dim, vtype)
    trend, trend_at = mean_trend(ctx, "trend", kind, dim, vtype)
    pos, shape, pts = mesh_points(ctx, mesh, dim, n)
    fshape = ((dim,) + shape) if vtype == "vector" else shape
    vals = np.empty(fshape, dtype=object)
    cells = []
    for c, flat in enumerate(np.ndindex(*fshape)):
        k, pidx = (flat[0], flat[1:]) if vtype == "vector" else (0, flat)
        pt = pts[tuple(pidx)]
        if norm in ("LogNormal", "BoxCox"):      # normalize range (0, inf): f = trend + u, u > 0
            u = ctx.real("u%d" % c, pos=True)
            ctx.require(ctx.gt(u, 0))
            v = trend_at(pt, k) + u
        else:
            v = ctx.real("f%d" % c)
        vals[flat] = v
        cells.append((flat, k, pt, v))
    if ctx.mode == "conc":
        vals = vals.astype(float)
    got = _quiet(ntools.remove_trend_norm_mean, pos, vals, mean=mean, normalizer=narg, trend=trend,
                 mesh_type=mesh, value_type=vtype, check_shape=(vtype == "scalar"))
    ctx.ensure("shape", ctx.shape_eq(got, fshape))
    for flat, k, pt, v in cells:
        want = nm(v - trend_at(pt, k)) - mean_at(pt, k)
        ctx.ensure("out=normalize(field-trend)-mean", False if is_nan_leaf(got[flat]) else ctx.eq(got[flat], want))


@contract(P, "Field.post_field/uses-own-mean-normalizer-trend",
          params=[p for p in PIPE if p["norm"] in ("none", "LogNormal", "generic")],
          functions=["field/base.py:Field.post_field", "field/base.py:Field.set_pos", "field/base.py:_set_mean_trend",
                     "normalizer/tools.py:apply_mean_norm_trend"], bounded="dim 2, 1-3 points per axis", timeout=40)
def post_field(ctx, norm, kind, mesh, vtype, n):
    S = _pipeline_setup(ctx, norm, kind, mesh, vtype, n)
    fld = gs.field.Field(dim=2, value_type=vtype, mean=S["mean"], normalizer=S["narg"], trend=S["trend"])
    _quiet(fld.set_pos, S["pos"], mesh)
    ctx.ensure("field_shape", tuple(fld.field_shape) == tuple(S["fshape"]))
    out = _quiet(fld.post_field, S["raw"].ravel(), "result", True, True)
    ctx.ensure("shape", ctx.shape_eq(out, S["fshape"]))
    for c in S["cells"]:
        want = S["trend_at"](c["pt"], c["k"]) + S["dn"](c["z"])
        got = out[c["idx"]]
        ctx.ensure("post_field=trend+denormalize(mean+raw)", False if is_nan_leaf(got) else ctx.eq(got, want),
                   using=_using(ctx, c))
    ctx.ensure("stored-under-name", "result" in fld.field_names and fld["result"] is out)
    plain = _quiet(fld.post_field, S["raw"].ravel(), "rawcopy", False, True)
    ctx.ensure("process=False:unchanged", ctx.eq(plain, S["raw"]))


@contract(P, "tools.apply_mean_norm_trend/structured-grid-with-equal-axis-lengths", params={"n": [2, 3]},
          functions=["normalizer/tools.py:apply_mean_norm_trend", "tools/geometric.py:format_struct_pos_shape"],
          bounded="dim 2, n x n grid")
def structured_equal_axes(ctx, n):
    """mesh type 'structured' with axes of equal length (the shape check is documented to handle
    this corner case): same statement as `pipeline`, identity normalizer, callable mean"""
    xs, ys = ctx.reals("x", n), ctx.reals("y", n)
    a, b, c = ctx.real("a"), ctx.real("b"), ctx.real("c")
    t = ctx.real("trend")
    raw = np.empty((n, n), dtype=object)
    for i in range(n):
        for j in range(n):
            raw[i, j] = ctx.real("f%d%d" % (i, j))
    if ctx.mode == "conc":
        raw = raw.astype(float)
    try:
        out = _quiet(ntools.apply_mean_norm_trend, (list(xs), list(ys)), raw, mean=lambda x, y: a * x + b * y + c,
                     trend=t, mesh_type="structured")
    except (TypeError, ValueError):
        ctx.ensure("out=trend+denormalize(mean+field)", False)
        return
    ok = tuple(np.shape(out)) == (n, n)
    ctx.ensure("out=trend+denormalize(mean+field)",
               ctx.And(*[ctx.eq(out[i, j], t + (a * xs[i] + b * ys[j] + c) + raw[i, j])
                         for i in range(n) for j in range(n)]) if ok else False)


# ---------------------------------------------------------------------------------------
# 6. NaN inputs (not representable in symbolic terms): native probes, reported as BOUNDED
# ---------------------------------------------------------------------------------------
PROBE_LMBDA = [-1.5, -0.5, 0.0, 1e-9, 0.5, 1.0, 2.0, 2.0 + 1e-6, 3.0]
NAN = float("nan")


def _probe_vectors(rng):
    lo, hi = float(rng[0]), float(rng[1])
    vs = []
    if np.isfinite(lo):
        vs.append([lo - 1.0, lo, lo + 0.5, NAN, lo + 2.0])
        vs.append([NAN, lo - 1e-9, NAN])
    if np.isfinite(hi):
        vs.append([hi + 1.0, hi, hi - 0.5, NAN, hi - 2.0])
    if not np.isfinite(lo) and not np.isfinite(hi):
        vs.append([-2.0, NAN, 0.0, 1.5])
    vs.append([NAN, NAN])
    mid = lo + 1.0 if np.isfinite(lo) else (hi - 1.0 if np.isfinite(hi) else 0.3)
    vs.append([[mid, NAN, mid], [NAN, mid, mid]])          # 2-d input keeps its shape
    return vs


def _probe_once(cls, par, method, data):
    """-> None if the public method maps exactly the NaN / out-of-range entries to NaN and leaves
    the rest equal to the private transform, else a description of the discrepancy"""
    norm = getattr(gn, cls)(**par)
    rng = norm.denormalize_range if method == "denormalize" else norm.normalize_range
    priv = getattr(norm, "_" + method)
    data = np.array(data, dtype=float)
    with np.errstate(all="ignore"):
        out = _quiet(getattr(norm, method), data)
        if np.shape(out) != data.shape:
            return "shape %s != %s" % (np.shape(out), data.shape)
        for idx in np.ndindex(*data.shape):
            v = data[idx]
            bad = bool(np.isnan(v)) or not (float(rng[0]) < v < float(rng[1]))
            if bad:
                if not np.isnan(out[idx]):
                    return "entry %r (outside %r or NaN) -> %r, expected NaN" % (v, tuple(map(float, rng)), out[idx])
            else:
                want = float(np.asarray(priv(np.array([v])))[0])
                if not (out[idx] == want or (np.isnan(out[idx]) and np.isnan(want)) or
                        abs(out[idx] - want) <= 1e-12 * max(1.0, abs(want))):
                    return "valid entry %r -> %r, expected %r" % (v, out[idx], want)
    return None


def _probe_pipeline(cls, par):
    norm = getattr(gn, cls)(**par)
    lo, hi = (float(v) for v in norm.denormalize_range)
    z = lo + 0.5 if np.isfinite(lo) else (hi - 0.5 if np.isfinite(hi) else 0.3)   # inside the declared range
    with np.errstate(all="ignore"):
        x = float(np.asarray(norm._denormalize(np.array([z])))[0])
        field = np.array([z - 0.25, NAN, z - 0.25])
        out = _quiet(ntools.apply_mean_norm_trend, [[0.0, 1.0, 2.0]], field, mean=0.25, normalizer=norm, trend=-1.0)
        if not (np.isnan(out[1]) and abs(out[0] - (x - 1.0)) < 1e-9 and abs(out[2] - (x - 1.0)) < 1e-9):
            return "apply_mean_norm_trend([z, NaN, z]) = %r, expected [%r, NaN, %r]" % (out, x - 1.0, x - 1.0)
        back = _quiet(ntools.remove_trend_norm_mean, [[0.0, 1.0, 2.0]], out, mean=0.25, normalizer=norm, trend=-1.0)
        if not (np.isnan(back[1]) and abs(back[0] - field[0]) < 1e-7 and abs(back[2] - field[2]) < 1e-7):
            return "remove_trend_norm_mean(...) = %r, expected %r" % (back, field)
    return None


def probe_params(cls):
    if cls == "LogNormal":
        return [{}]
    if cls == "BoxCoxShift":
        return [{"lmbda": l, "shift": s} for l in PROBE_LMBDA for s in (0.0, 0.7)]
    return [{"lmbda": l} for l in PROBE_LMBDA]


def native_probes(rep, only=None):
    """adds one BOUNDED obligation per (class, public method): NaN-in => NaN-out, out-of-range
    (boundaries included) => NaN, everything else untouched, on a fixed grid of parameter values
    and data vectors, executed on the real float code"""
    from gsvc.core import Obligation, BOUNDED, FAILED
    for cls in BRANCHES:
        for method in ("normalize", "denormalize", "derivative", "pipeline"):
            oid = "%s/native.Normalizer.%s/NaN-and-out-of-range->NaN,rest-untouched[cls=%s]" % (P, method, cls)
            if only and only not in oid:
                continue
            n, fail = 0, None
            for par in probe_params(cls):
                if method == "pipeline":
                    n += 1
                    why = _probe_pipeline(cls, par)
                    if why and fail is None:
                        fail = {"cls": cls, "par": par, "method": method, "data": None, "why": why}
                    continue
                norm = getattr(gn, cls)(**par)
                rng = norm.denormalize_range if method == "denormalize" else norm.normalize_range
                for data in _probe_vectors(rng):
                    n += 1
                    why = _probe_once(cls, par, method, data)
                    if why and fail is None:
                        fail = {"cls": cls, "par": par, "method": method, "data": data, "why": why}
            bound = "native NaN/out-of-range probes: %d (parameter value, data vector) cases" % n
            fns = ["normalizer/base.py:Normalizer.%s" % (method if method != "pipeline" else "denormalize"),
                   "normalizer/base.py:Normalizer._check_input"]
            if fail is None:
                rep.add(Obligation(oid, BOUNDED, "native", 0.0, "", None, bound, fns))
            else:
                rep.add(Obligation(oid, FAILED, "native", 0.0, fail["why"], {"inputs": fail, "how": "native probe"},
                                   bound, fns, replay={"native_probe": fail}))


# ---------------------------------------------------------------------------------------
# replay (contract ids and ensure names may contain '/')
# ---------------------------------------------------------------------------------------
def replay_file(prop, path, native=None):
    import json
    from gsvc import contract as _c
    data = json.load(open(path))
    rp = data.get("replay") or {}
    oid = data["obligation"]
    if rp.get("native_probe") is not None and native is not None:
        why = native(rp["native_probe"])
        print("replay %s -> %s" % (oid, why or "holds"))
        if why:
            print("VIOLATION property=%s replay=%s" % (prop, path))
            return 1
        return 0
    wit = rp.get("witness") or data.get("witness")
    if not wit or "inputs" not in wit:
        print("replay file carries no native witness (obligation %s): %s" % (oid, (data.get("solver_output") or "")[:300]))
        return 0
    for c in _c.REGISTRY:
        if c.prop == prop and c.cid == rp.get("contract"):
            p = c.params[rp["param"]]
            name = oid[len("%s/%s/" % (prop, c.cid)):]
            ps = _c._pstr(p)
            name = name[:len(name) - len(ps)] if ps and name.endswith(ps) else name
            try:
                r = _c.run_concrete(c, p, wit["inputs"])
            except Exception as e:
                print("replay: real code raised %r" % (e,))
                print("VIOLATION property=%s replay=%s" % (prop, path))
                return 1
            print("replay %s inputs=%s -> %s" % (oid, wit["inputs"], None if r is None else r.get(name)))
            if r is not None and r.get(name) is False:
                print("VIOLATION property=%s replay=%s" % (prop, path))
                return 1
            return 0
    print("contract not found for", oid)
    return 3


def replay_native_probe(fail):
    if fail["method"] == "pipeline":
        return _probe_pipeline(fail["cls"], fail["par"])
    return _probe_once(fail["cls"], fail["par"], fail["method"], fail["data"])


# ---------------------------------------------------------------------------------------
# 7. kriging: conditioning values enter the system as normalize(value - trend) - mean, the
#    estimated/simple mean leaves it as denormalize(mean)
# ---------------------------------------------------------------------------------------
def install_cdist_shim():
    """krige.base binds scipy's cdist by name; positions are concrete in these contracts but reach
    cdist as object arrays of numerals (np.eye(dtype=double) is an object array in symbolic runs)"""
    import gstools.krige.base as kb
    if getattr(kb.cdist, "_gsvc", False):
        return
    real = kb.cdist

    def cdist(a, b, *args, **kw):
        if any(isinstance(x, np.ndarray) and x.dtype == object for x in (a, b)):
            a, b = (np.array(np.asarray(x).tolist(), dtype=float) for x in (a, b))    # numerals only, else TypeError
        return real(a, b, *args, **kw)
    cdist._gsvc = True
    kb.cdist = cdist
    symrun.SHIM_LOG.append("gstools.krige.base.cdist: object arrays of numerals -> float (contracts/c18.py)")


install_cdist_shim()


@contract(P, "krige.base.Krige._krige_cond/normalize(cond-trend)-mean",
          params=[{"kind": k, "norm": nk, "cls": c} for k in ("const", "callable") for nk in ("none", "LogNormal", "generic")
                  for c in ("Simple", "Ordinary")],
          functions=["krige/base.py:Krige._krige_cond", "krige/base.py:Krige.cond_mean", "krige/base.py:Krige.cond_trend",
                     "krige/base.py:Krige.get_mean", "krige/base.py:Krige.set_condition"],
          bounded="2 conditioning points, dim 1")
def krige_cond(ctx, kind, norm, cls):
    m = ctx.m
    narg, dn, nm, _ = pipeline_normalizer(ctx, norm)
    mean, mean_at = mean_trend(ctx, "mean", kind, 1, "scalar")
    trend, trend_at = mean_trend(ctx, "trend", kind, 1, "scalar")
    pos = [0.25, 1.5]
    vals = []
    for i, p in enumerate(pos):
        if norm == "LogNormal":      # normalize range (0, inf): value = trend + u, u > 0
            u = ctx.real("u%d" % i, pos=True)
            ctx.require(ctx.gt(u, 0))
            vals.append(trend_at([p], 0) + u)
        else:
            vals.append(ctx.real("c%d" % i))
    model = _quiet(gs.Exponential, dim=1, var=1.3, len_scale=0.8)
    kw = dict(mean=mean) if cls == "Simple" else {}
    import gstools.krige.base as kb
    real_pinv = kb.P_INV
    kb.P_INV = {k: (lambda mat: mat) for k in real_pinv}       # the kriging matrix is not used below (stub)
    try:
        krig = _quiet(getattr(gs.krige, cls), model, [pos], arr(ctx, vals), normalizer=narg, trend=trend, **kw)
    finally:
        kb.P_INV = real_pinv
    got = _quiet(lambda: krig._krige_cond)
    pad = 1 if cls == "Ordinary" else 0
    ctx.ensure("length", ctx.shape_eq(got, (len(pos) + pad,)))
    for i, p in enumerate(pos):
        mu_i = mean_at([p], 0) if cls == "Simple" else 0
        ctx.ensure("cond=normalize(value-trend)-mean", ctx.eq(got[i], nm(vals[i] - trend_at([p], 0)) - mu_i))
    if pad:
        ctx.ensure("unbiasedness-row-padded-with-0", ctx.eq(got[-1], 0))
    if cls == "Simple" and kind == "const":
        gm = _quiet(krig.get_mean)
        ctx.ensure("get_mean=denormalize(mean)", ctx.eq(gm, dn(mean_at([0.0], 0))))
        ctx.ensure("get_mean(post_process=False)=0", ctx.eq(_quiet(krig.get_mean, False), 0))


@contract(P, "Normalizer.fit[skip]/skipped-parameters-untouched", params={"skip": ["lmbda", "shift"]},
          functions=["normalizer/base.py:Normalizer.fit"], bounded="n=2 data points; BoxCoxShift (the two-parameter normalizer)")
def fit_skip(ctx, skip):
    """fit(data, skip=[p]): p keeps its value, the other parameter receives the optimiser's result,
    and the objective varies only the non-skipped parameter"""
    lm0, sh0 = ctx.real("lmbda0", lo=0.3, hi=1.5), ctx.real("shift0", lo=0.5, hi=2.0)
    norm = gn.BoxCoxShift(lmbda=lm0, shift=sh0)
    xs = [ctx.real("x%d" % i, lo=0.5, hi=3.0) for i in range(2)]
    for x in xs:
        ctx.require(ctx.gt(x + sh0, 0))
    fitted = "shift" if skip == "lmbda" else "lmbda"
    xopt = ctx.real("opt")
    fake = _FakeOpt([xopt])
    real_spo = nbase.spo
    nbase.spo = fake
    try:
        with np.errstate(all="ignore"):
            res = _quiet(norm.fit, arr(ctx, xs), skip=[skip])
    finally:
        nbase.spo = real_spo
    ctx.ensure("optimiser=minimize_scalar", fake.seen.get("which") == "minimize_scalar")
    ctx.ensure("skipped-parameter-kept", ctx.eq(getattr(norm, skip), lm0 if skip == "lmbda" else sh0))
    ctx.ensure("fitted-parameter=optimum", ctx.eq(getattr(norm, fitted), xopt))
    ctx.ensure("returned-dict=state-after-fit", ctx.And(fitted in res, ctx.eq(res[fitted], xopt),
                                                        *[ctx.eq(v, getattr(norm, k)) for k, v in res.items()]))
    # the objective writes its argument into the fitted parameter only
    t = ctx.real("trial", lo=0.4, hi=1.6)
    ctx.require(ctx.gt(xs[0] + t, 0) if fitted == "shift" else ctx.true())
    ctx.require(ctx.gt(xs[1] + t, 0) if fitted == "shift" else ctx.true())
    with np.errstate(all="ignore"):
        _quiet(fake.seen["fun"], t, *fake.seen["args"])
    ctx.ensure("objective-sets-fitted-parameter-only",
               ctx.And(ctx.eq(getattr(norm, fitted), t), ctx.eq(getattr(norm, skip), lm0 if skip == "lmbda" else sh0)))


@contract(P, "tools.remove_trend_norm_mean/repeatable-on-the-same-input", params={"check_shape": [True, False], "fn": ["remove", "apply"]},
          functions=["normalizer/tools.py:remove_trend_norm_mean", "normalizer/tools.py:apply_mean_norm_trend"],
          bounded="3 points, constant trend/mean (call history: the same input array used twice)")
def pipeline_repeatable(ctx, check_shape, fn):
    """the pipeline functions are functions of their arguments: calling them twice with the same
    field array gives the same result (the inverse pair stays an inverse pair on the second use)"""
    from gstools.normalizer import remove_trend_norm_mean, apply_mean_norm_trend
    t, mu = ctx.real("trend", lo=-3, hi=3), ctx.real("mean", lo=-3, hi=3)
    vals = [ctx.real("f%d" % i, lo=-2, hi=2) for i in range(3)]
    pos = np.array([[0.0, 1.0, 2.0]])
    f = arr(ctx, vals)
    g = remove_trend_norm_mean if fn == "remove" else apply_mean_norm_trend
    with np.errstate(all="ignore"):
        r1 = _quiet(g, pos, f, mean=mu, trend=t, check_shape=check_shape)
        r2 = _quiet(g, pos, f, mean=mu, trend=t, check_shape=check_shape)
    ctx.ensure("second-call=first-call", ctx.eq(r2, r1))
    exp = [v - t - mu for v in vals] if fn == "remove" else [v + t + mu for v in vals]
    ctx.ensure("second-call=documented-value", ctx.eq(r2, arr(ctx, exp)))


# --- fit_normalizer: the normalizer is fitted to the detrended field (documented order) -------------------
def _recording_normalizer():
    from gstools.normalizer import Normalizer

    class Rec(Normalizer):
        """identity normalizer whose fit records (a copy of) the data it is given -- ghost state"""
        seen = None

        def fit(self, data, skip=None, **kwargs):
            rows = np.array(data, dtype=object, copy=True)       # list of fields or a stacked array
            self.seen = list(rows.reshape(-1, rows.shape[-1]))
            return {}

    return Rec()


@contract(P, "tools.remove_trend_norm_mean/fit_normalizer-fits-the-detrended-field",
          params={"stacked": [False, True], "trend": ["const", "callable"]},
          functions=["normalizer/tools.py:remove_trend_norm_mean", "tools/misc.py:eval_func",
                     "tools/misc.py:_func_from_single_val"],
          bounded="1-D, 3 points, 1 or 2 stacked fields")
def pipeline_fit_order(ctx, stacked, trend):
    """docstring: 'fit_normalizer: whether to fit the data-normalizer to the given (detrended) field';
    the fitted normalizer is returned as second value; mean is subtracted after normalisation"""
    from gstools.normalizer import remove_trend_norm_mean
    t, s, mu = ctx.real("trend", lo=-3, hi=3), ctx.real("slope", lo=-2, hi=2), ctx.real("mean", lo=-3, hi=3)
    xs = [0.0, 1.0, 2.0]
    nf = 2 if stacked else 1
    vals = [[ctx.real("f%d_%d" % (k, i), lo=-2, hi=2) for i in range(3)] for k in range(nf)]
    f = arr(ctx, vals if stacked else vals[0])
    targ = t if trend == "const" else (lambda x: t + s * x)
    tat = (lambda x: t) if trend == "const" else (lambda x: t + s * x)
    rec = _recording_normalizer()
    with np.errstate(all="ignore"):
        out = _quiet(remove_trend_norm_mean, np.array([xs]), f, mean=mu, normalizer=rec, trend=targ,
                     stacked=stacked, fit_normalizer=True)
    ctx.ensure("returns-(field,normalizer)", isinstance(out, tuple) and len(out) == 2 and out[1] is rec)
    ctx.ensure("fit-called-once-with-all-fields", rec.seen is not None and len(rec.seen) == nf)
    det = [[vals[k][i] - tat(xs[i]) for i in range(3)] for k in range(nf)]
    ctx.ensure("fit-data=field-trend", ctx.And(*[ctx.eq(rec.seen[k], arr(ctx, det[k])) for k in range(nf)]))
    want = [[d - mu for d in det[k]] for k in range(nf)]
    ctx.ensure("out=normalize(field-trend)-mean", ctx.eq(out[0], arr(ctx, want if stacked else want[0])))


# --- normalizers given as a CLASS (or None): every call gets its own default instance -----------------------------
def normalizer_class_history(ctx, cls, entry):
    """call history: a normalizer handed over as a class means 'a default instance of that class' in EVERY call;
    fitting it in one call (fit_normalizer=True) must not leak into a later call that passes the class again"""
    import gstools as gs
    ok_fresh = ok_same = True
    with symrun.native():
        C = getattr(gs.normalizer, cls)
        rng = np.random.RandomState(3)
        pos = rng.rand(2, 30) * 10
        data1 = np.exp(rng.randn(30) * 0.8 + 1.0) + 0.3
        data2 = np.exp(rng.randn(30) * 0.3) + 0.1
        bins = np.array([0.5, 2.0, 4.0, 6.0])
        if entry == "vario_estimate":
            out1 = gs.vario_estimate(pos, data1, bins, normalizer=C, fit_normalizer=True)
            got = gs.vario_estimate(pos, data2, bins, normalizer=C)[1]
            ref = gs.vario_estimate(pos, C().normalize(data2), bins)[1]
            ok_same = np.allclose(got, ref, rtol=1e-10, atol=1e-12)
            n1 = out1[-1]
        elif entry == "remove_trend_norm_mean":
            _, n1 = ntools.remove_trend_norm_mean(pos, data1, normalizer=C, fit_normalizer=True, check_shape=False)
            got = ntools.remove_trend_norm_mean(pos, data2, normalizer=C, check_shape=False)
            ok_same = np.allclose(got, C().normalize(data2), rtol=1e-10, atol=1e-12)
        else:       # Krige with a fitted normalizer class, then a second object with the class
            k1 = gs.krige.Ordinary(gs.Gaussian(dim=2), pos, data1, normalizer=C, fit_normalizer=True)
            n1 = k1.normalizer
            k2 = gs.krige.Ordinary(gs.Gaussian(dim=2), pos, data2, normalizer=C)
            ok_same = k2.normalizer is not n1 and k2.normalizer == C()
        n2 = ntools._check_normalizer(C)
        ok_fresh = n2 is not n1 and n2 == C() and ntools._check_normalizer(C) is not n2 and \
            ntools._check_normalizer(None) is not ntools._check_normalizer(None)
    ctx.ensure("later-call-with-the-class=call-with-a-default-instance", ok_same)
    ctx.ensure("class-or-None->new-default-instance-per-call", ok_fresh)


NORM_HIST = [{"cls": c, "entry": e} for c in ("BoxCox", "YeoJohnson", "LogNormal")
             for e in ("vario_estimate", "remove_trend_norm_mean", "Krige")]
NORM_HIST_FN = ["normalizer/tools.py:_check_normalizer", "normalizer/tools.py:remove_trend_norm_mean",
                "normalizer/base.py:Normalizer.fit"]
NORM_HIST_B = "native run: 30 points in 2-D, two data sets, three normalizer classes, three entry points"
contract(P, "normalizer.tools._check_normalizer[class-given]/no-fitted-state-shared-between-calls", params=NORM_HIST,
         functions=NORM_HIST_FN, bounded=NORM_HIST_B)(normalizer_class_history)
