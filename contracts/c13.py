r"""C13 -- geographic and spatio-temporal coordinates are consistent across modules.

Spec sources: the property statement; sphere geometry (haversine argument
a = sin^2(dlat/2) + cos lat1 cos lat2 sin^2(dlon/2), great-circle angle zeta = 2 atan2(sqrt a,
sqrt(1-a)), chord = 2 R sin(zeta/2)); documented meaning of geo_scale (sphere radius in the
unit of the length scale) and of the temporal axis (appended last, scaled by anis[-1] only).
"""
import warnings

import numpy as np

import gstools as gs
from gsvc.contract import contract
from gsvc import symrun
from gstools.tools import geometric as geo
from gstools.covmodel import tools as ctools
from contracts import axioms as ax

P = "C13"


def _arr(ctx, xs):
    a = np.array(xs, dtype=object)
    return a if ctx.mode == "sym" else a.astype(float)


def _umodel(ctx):
    """a user-defined model whose normalised correlation `cor` is an uninterpreted function:
    obligations proved with it hold for every model class"""
    m = ctx.m

    class UModel(gs.CovModel):
        def cor(self, h):
            h = np.asarray(h, dtype=object)
            if h.ndim == 0:
                return m.fn("ucor", h.item())
            out = np.empty(h.shape, dtype=object)
            for i, v in enumerate(h.ravel().tolist()):
                out.reshape(-1)[i] = m.fn("ucor", v)
            return out if ctx.mode == "sym" else out.astype(float)
    return UModel


symrun.CONC_FUNCS["ucor"] = lambda h: float(np.exp(-abs(h) ** 1.5))


def _hav_a(ctx, lat1, lon1, lat2, lon2):
    """haversine argument (degrees in)"""
    m = ctx.m
    d2r = m.pi / 180
    p1, p2, l1, l2 = lat1 * d2r, lat2 * d2r, lon1 * d2r, lon2 * d2r
    sp = m.sin((p1 - p2) / 2)
    sl = m.sin((l1 - l2) / 2)
    return sp * sp + m.cos(p1) * m.cos(p2) * sl * sl, (p1, p2, l1, l2)


def _hav_hints(ctx, p1, p2, l1, l2):
    return [ax.half_angle(ctx, p1 - p2), ax.half_angle(ctx, l1 - l2),
            ax.cos_diff(ctx, p1, p2), ax.cos_diff(ctx, l1, l2)]


@contract(P, "geometric.latlon2pos/on-sphere-of-radius-geo_scale", params={"temporal": [False, True]},
          functions=["tools/geometric.py:latlon2pos"])
def on_sphere(ctx, temporal):
    lat = ctx.real("lat", lo=-90, hi=90)
    lon = ctx.real("lon", lo=-360, hi=360)
    R = ctx.real("R", pos=True)
    ctx.require(ctx.gt(R, 0))
    ll = [[lat], [lon]]
    if temporal:
        t = ctx.real("t")
        ts = ctx.real("ts", pos=True)
        ctx.require(ctx.gt(ts, 0))
        p = geo.latlon2pos(ll + [[t]], radius=R, temporal=True, time_scale=ts)
        ctx.ensure("shape", ctx.shape_eq(p, (4, 1)))
        ctx.ensure("time-appended-last-and-scaled", ctx.eq(p[3, 0] * ts, t))
    else:
        p = geo.latlon2pos(ll, radius=R)
        ctx.ensure("shape", ctx.shape_eq(p, (3, 1)))
    x, y, z = p[0, 0], p[1, 0], p[2, 0]
    ctx.ensure("on-sphere", ctx.eq(x * x + y * y + z * z, R * R))
    m = ctx.m
    d2r = m.pi / 180
    ctx.ensure("standard-geographic-embedding", ctx.And(
        ctx.eq(x, R * m.cos(lat * d2r) * m.cos(lon * d2r)),
        ctx.eq(y, R * m.cos(lat * d2r) * m.sin(lon * d2r)),
        ctx.eq(z, R * m.sin(lat * d2r))))


@contract(P, "geometric.latlon2pos/chord-equals-haversine-geometry",
          functions=["tools/geometric.py:latlon2pos", "tools/geometric.py:great_circle_to_chordal"],
          timeout=60)
def chord_haversine(ctx):
    lat1, lat2 = ctx.real("lat1", lo=-90, hi=90), ctx.real("lat2", lo=-90, hi=90)
    lon1, lon2 = ctx.real("lon1", lo=-360, hi=360), ctx.real("lon2", lo=-360, hi=360)
    R = ctx.real("R", pos=True)
    Rpos = ctx.require(ctx.gt(R, 0))
    p = geo.latlon2pos([[lat1, lat2], [lon1, lon2]], radius=R)
    d = p[:, 0] - p[:, 1]
    chord2 = d[0] * d[0] + d[1] * d[1] + d[2] * d[2]
    a, ang = _hav_a(ctx, lat1, lon1, lat2, lon2)
    hh = _hav_hints(ctx, *ang)
    L1 = ctx.lemma("chord^2=4R^2.a", ctx.eq(chord2, 4 * R * R * a), using=hh)
    L2 = ctx.lemma("a-in-[0,1]", ctx.And(ctx.ge(a, 0), ctx.le(a, 1)), using=hh)
    # great-circle angle of the variogram estimator, zeta = 2 atan2(sqrt a, sqrt(1-a)) (radians);
    # its chord on the sphere of radius R, as used by cov_yadrenko / fit_variogram:
    ch, L5 = _chord_of_zeta(ctx, a, R, L2, Rpos)
    ctx.ensure("chordal(R.zeta)^2=chord^2", ctx.eq(ch * ch, chord2), using=[L1, L2, L5, Rpos],
               generalize=[chord2, a])
    ctx.ensure("chordal>=0", ctx.ge(ch, 0), using=[L2, L5, Rpos], generalize=[a])


def _chord_of_zeta(ctx, a, R, La, Rpos):
    """chord = great_circle_to_chordal(R.zeta, R) for zeta = 2 atan2(sqrt a, sqrt(1-a)), with the
    lemma chain  x^2+y^2 = 1,  rho = 1,  sin(atan2) = sqrt a,  chord = 2 R sqrt a"""
    m = ctx.m
    ys, xs = m.sqrt(a), m.sqrt(1 - a)
    L1 = ctx.lemma("sqrt(1-a)^2+sqrt(a)^2=1", ctx.eq(xs * xs + ys * ys, 1), using=[La])
    rho = m.sqrt(xs * xs + ys * ys)
    L2 = ctx.lemma("rho=1", ctx.eq(rho, 1), using=[L1])
    r = m.arctan2(ys, xs)
    L3 = ctx.lemma("sin(atan2(sqrt a,sqrt(1-a)))=sqrt a", ctx.eq(m.sin(r), ys), using=[L1, L2])
    zeta = 2 * r
    L4 = ctx.lemma("R.zeta/(2R)=zeta/2", ctx.eq(R * zeta / (2 * R), r), using=[Rpos])
    ch = geo.great_circle_to_chordal(R * zeta, R)
    L5 = ctx.lemma("chordal(R.zeta)=2R.sqrt(a)", ctx.eq(ch, 2 * R * ys), using=[L3, L4])
    return ch, L5


@contract(P, "geometric.chordal_to_great_circle/inverse-of-great_circle_to_chordal",
          functions=["tools/geometric.py:chordal_to_great_circle", "tools/geometric.py:great_circle_to_chordal"])
def chordal_inverse(ctx):
    R = ctx.real("R", pos=True)
    d = ctx.real("d", nonneg=True)
    ctx.require(ctx.gt(R, 0))
    ctx.require(ctx.And(ctx.ge(d, 0), ctx.le(d, ctx.m.pi * R)))
    c = geo.great_circle_to_chordal(d, R)
    ctx.ensure("chord-in-[0,2R]", ctx.And(ctx.ge(c, 0), ctx.le(c, 2 * R)))
    back = geo.chordal_to_great_circle(c, R)
    ctx.ensure("gc(chordal(d))=d", ctx.eq(back, d))
    ctx.ensure("chordal=2R.sin(d/2R)", ctx.eq(c, 2 * R * ctx.m.sin(d / (2 * R))))


@contract(P, "geometric.chordal_to_great_circle/right-inverse",
          functions=["tools/geometric.py:chordal_to_great_circle", "tools/geometric.py:great_circle_to_chordal"])
def chordal_inverse2(ctx):
    R = ctx.real("R", pos=True)
    c = ctx.real("c", nonneg=True)
    ctx.require(ctx.gt(R, 0))
    ctx.require(ctx.And(ctx.ge(c, 0), ctx.le(c, 2 * R)))
    g = geo.chordal_to_great_circle(c, R)
    ctx.ensure("great-circle-in-[0,pi.R]", ctx.And(ctx.ge(g, 0), ctx.le(g, ctx.m.pi * R)))
    ctx.ensure("chordal(gc(c))=c", ctx.eq(geo.great_circle_to_chordal(g, R), c))


@contract(P, "geometric.pos2latlon/inverse-of-latlon2pos", params={"temporal": [False, True]},
          functions=["tools/geometric.py:pos2latlon", "tools/geometric.py:latlon2pos"], timeout=60)
def latlon_roundtrip(ctx, temporal):
    lat = ctx.real("lat", lo=-89.9, hi=89.9)
    lon = ctx.real("lon", lo=-179.9, hi=180)
    R = ctx.real("R", pos=True)
    ctx.require(ctx.gt(R, 0))
    ctx.require(ctx.And(ctx.gt(lat, -90), ctx.lt(lat, 90), ctx.gt(lon, -180), ctx.le(lon, 180)))
    kw = {}
    ll = [[lat], [lon]]
    if temporal:
        t = ctx.real("t")
        ts = ctx.real("ts", pos=True)
        ctx.require(ctx.gt(ts, 0))
        ll = ll + [[t]]
        kw = dict(temporal=True, time_scale=ts)
    p = geo.latlon2pos(ll, radius=R, **kw)
    back = geo.pos2latlon(p, radius=R, **kw)
    ctx.ensure("lat", ctx.eq(back[0][0], lat))
    ctx.ensure("lon", ctx.eq(back[1][0], lon))
    if temporal:
        ctx.ensure("time", ctx.eq(back[2][0], t))


@contract(P, "geometric.latlon2pos/inverse-of-pos2latlon-on-sphere", params={"temporal": [False, True]},
          functions=["tools/geometric.py:pos2latlon", "tools/geometric.py:latlon2pos"], timeout=90)
def pos_roundtrip(ctx, temporal):
    x, y, z = ctx.real("x"), ctx.real("y"), ctx.real("z")
    R = ctx.m.sqrt(x * x + y * y + z * z)
    ctx.require(ctx.gt(x * x + y * y + z * z, 0))
    kw = {}
    pp = [[x], [y], [z]]
    if temporal:
        t = ctx.real("t")
        ts = ctx.real("ts", pos=True)
        ctx.require(ctx.gt(ts, 0))
        pp = pp + [[t]]
        kw = dict(temporal=True, time_scale=ts)
    ll = geo.pos2latlon(pp, radius=R, **kw)
    ctx.ensure("lat-in-range", ctx.And(ctx.ge(ll[0][0], -90), ctx.le(ll[0][0], 90)))
    ctx.ensure("lon-in-range", ctx.And(ctx.gt(ll[1][0], -180), ctx.le(ll[1][0], 180)))
    back = geo.latlon2pos(ll, radius=R, **kw)
    ctx.ensure("x", ctx.eq(back[0][0], x))
    ctx.ensure("y", ctx.eq(back[1][0], y))
    ctx.ensure("z", ctx.eq(back[2][0], z))
    if temporal:
        ctx.ensure("time", ctx.eq(back[3][0], t))


def _sym_model(ctx, latlon, temporal, dim=3):
    U = _umodel(ctx)
    v, l, n = ctx.real("var", pos=True), ctx.real("len", pos=True), ctx.real("nug", nonneg=True)
    R = ctx.real("R", pos=True)
    ctx.require(ctx.And(ctx.gt(v, 0), ctx.gt(l, 0), ctx.ge(n, 0), ctx.gt(R, 0)))
    kw = {}
    if temporal:
        ta = ctx.real("tanis", pos=True)
        ctx.require(ctx.gt(ta, 0))
    with warnings.catch_warnings():
        warnings.simplefilter("ignore")
        if latlon:
            anis = [1.0, 1.0, ta] if temporal else 1.0
            mod = U(latlon=True, temporal=temporal, var=v, len_scale=l, nugget=n, anis=anis,
                    geo_scale=R)
        else:
            mdim = dim
            anis = ctx.reals("anis", mdim - 1, pos=True)
            for r in anis:
                ctx.require(ctx.gt(r, 0))
            ang = ctx.reals("ang", mdim * (mdim - 1) // 2, angle=True)
            mod = U(dim=mdim, temporal=temporal, var=v, len_scale=l, nugget=n, anis=anis, angles=ang)
    return mod


@contract(P, "CovModel.isometrize[latlon]/covariance-equals-yadrenko", params={"temporal": [False]},
          functions=["covmodel/base.py:CovModel.isometrize", "covmodel/base.py:CovModel.cov_yadrenko",
                     "covmodel/base.py:CovModel.vario_yadrenko", "covmodel/base.py:CovModel.cor_yadrenko",
                     "tools/geometric.py:latlon2pos"], timeout=90)
def yadrenko(ctx, temporal):
    """the covariance fields and kriging use between two lat-lon points (covariance of the
    Euclidean distance of the isometrised positions) equals the Yadrenko covariance of their
    great-circle distance R.zeta"""
    mod = _sym_model(ctx, True, temporal)
    lat1, lat2 = ctx.real("lat1", lo=-90, hi=90), ctx.real("lat2", lo=-90, hi=90)
    lon1, lon2 = ctx.real("lon1", lo=-360, hi=360), ctx.real("lon2", lo=-360, hi=360)
    iso = mod.isometrize([[lat1, lat2], [lon1, lon2]])
    ctx.ensure("iso-shape", ctx.shape_eq(iso, (3, 2)))
    d = iso[:, 0] - iso[:, 1]
    m = ctx.m
    D2 = d[0] * d[0] + d[1] * d[1] + d[2] * d[2]
    dist = m.sqrt(D2)
    a, ang = _hav_a(ctx, lat1, lon1, lat2, lon2)
    hh = _hav_hints(ctx, *ang)
    R = mod.geo_scale
    Rpos = ctx.gt(R, 0)
    L1 = ctx.lemma("dist^2=4R^2.a", ctx.eq(D2, 4 * R * R * a), using=hh)
    L2 = ctx.lemma("a-in-[0,1]", ctx.And(ctx.ge(a, 0), ctx.le(a, 1)), using=hh)
    Rp = ctx.lemma("geo_scale>0", Rpos)
    ch, L5 = _chord_of_zeta(ctx, a, R, L2, Rp)
    L6 = ctx.lemma("dist=chordal(R.zeta)>=0", ctx.And(ctx.eq(dist, ch), ctx.ge(ch, 0)),
                   using=[L1, L2, L5, Rp], generalize=[D2, a])
    zeta = 2 * m.arctan2(m.sqrt(a), m.sqrt(1 - a))
    ctx.ensure("cov", ctx.eq(mod.covariance(dist), mod.cov_yadrenko(R * zeta)), using=[L6])
    ctx.ensure("vario", ctx.eq(mod.variogram(dist), mod.vario_yadrenko(R * zeta)), using=[L6])
    ctx.ensure("cor", ctx.eq(mod.correlation(dist), mod.cor_yadrenko(R * zeta)), using=[L6])


@contract(P, "CovModel.isometrize[temporal]/time-axis-only-scaled",
          params=[{"latlon": False, "dim": 2}, {"latlon": False, "dim": 3}, {"latlon": False, "dim": 4},
                  {"latlon": True, "dim": 4}],
          functions=["covmodel/base.py:CovModel.isometrize", "covmodel/base.py:CovModel.anisometrize",
                     "covmodel/tools.py:set_model_angles"], timeout=90)
def temporal_axis(ctx, latlon, dim):
    _temporal_body(ctx, latlon, dim, "ctor")


@contract(P, "CovModel.angles.setter,anis.setter[temporal]/time-axis-only-scaled",
          params=[{"dim": 3, "how": h} for h in ("angles", "anis+angles", "set_arg_bounds-then-angles")] +
                 [{"dim": 4, "how": "angles"}],
          functions=["covmodel/base.py:CovModel.angles", "covmodel/base.py:CovModel.anis",
                     "covmodel/base.py:CovModel.isometrize", "covmodel/tools.py:set_model_angles"], timeout=90)
def temporal_axis_setters(ctx, dim, how):
    """the statement holds for every way the orientation of a spatio-temporal model can be given: angles (a full
    list, incl. entries for the planes that contain the time axis) assigned AFTER construction"""
    _temporal_body(ctx, False, dim, how)


def _temporal_body(ctx, latlon, dim, how):
    mod = _sym_model(ctx, latlon, True, dim)
    if how != "ctor":
        n = dim * (dim - 1) // 2
        new = ctx.reals("newang", n, angle=True)
        with warnings.catch_warnings():
            warnings.simplefilter("ignore")
            if how == "anis+angles":
                na = ctx.reals("newanis", dim - 1, pos=True)
                for r in na:
                    ctx.require(ctx.gt(r, 0))
                mod.anis = na
            if how.startswith("set_arg_bounds"):
                mod.set_arg_bounds(var=[0.0, 50.0])
            mod.angles = new
        planes = geo.rotation_planes(dim)
        ctx.ensure("assigned-spatial-angles-kept;space-time-angles-zero",
                   ctx.And(*[ctx.eq(mod.angles[k], 0 if dim - 1 in pl else new[k]) for k, pl in enumerate(planes)]))
    fd = mod.field_dim
    pos = ctx.reals("p", fd)
    if latlon:
        ctx.require(ctx.And(ctx.gt(pos[0], -90), ctx.lt(pos[0], 90), ctx.gt(pos[1], -180), ctx.le(pos[1], 180)))
    iso = mod.isometrize([[x] for x in pos])
    ta = mod.anis[-1]
    ctx.ensure("time=t/anis[-1]", ctx.eq(iso[-1, 0] * ta, pos[-1]))
    if not latlon:
        # the time coordinate does not enter any spatial component and vice versa
        pos2 = list(pos)
        pos2[-1] = pos[-1] + ctx.real("dt")
        iso2 = mod.isometrize([[x] for x in pos2])
        ctx.ensure("space-independent-of-time", ctx.eq(iso2[:-1, 0], iso[:-1, 0]))
        pos3 = [x + ctx.real("dx%d" % i) for i, x in enumerate(pos[:-1])] + [pos[-1]]
        iso3 = mod.isometrize([[x] for x in pos3])
        ctx.ensure("time-independent-of-space", ctx.eq(iso3[-1, 0], iso[-1, 0]))
        R = geo.matrix_rotate(mod.dim, mod.angles)
        e = np.zeros(mod.dim)
        e[-1] = 1.0
        ctx.ensure("rotation-block-diagonal", ctx.And(ctx.eq(R[-1, :], e), ctx.eq(R[:, -1], e)))
    back = mod.anisometrize(iso)
    ctx.ensure("anisometrize-restores-time", ctx.eq(back[-1, 0], pos[-1]))
    if latlon:
        ctx.ensure("anisometrize-restores-latlon", ctx.And(ctx.eq(back[0, 0], pos[0]), ctx.eq(back[1, 0], pos[1])))


@contract(P, "covmodel.tools.set_model_angles/temporal-zeroes-space-time-planes",
          params=[{"dim": d, "given": g} for d in (2, 3, 4) for g in (0, 1, d * (d - 1) // 2)],
          functions=["covmodel/tools.py:set_model_angles", "tools/geometric.py:rotation_planes"])
def temporal_angles(ctx, dim, given):
    ang = ctx.reals("a", given, angle=True)
    out = ctools.set_model_angles(dim, ang, latlon=False, temporal=True)
    planes = geo.rotation_planes(dim)
    ctx.ensure("length", ctx.shape_eq(out, (len(planes),)))
    for k, pl in enumerate(planes):
        if dim - 1 in pl:
            ctx.ensure("plane%s-with-time-axis-zero" % (pl,), ctx.eq(out[k], 0))
        else:
            ctx.ensure("plane%s-kept" % (pl,), ctx.eq(out[k], ang[k] if k < given else 0))
    outl = ctools.set_model_angles(dim, ang, latlon=True, temporal=False)
    ctx.ensure("latlon-all-zero", ctx.eq(outl, np.zeros(len(planes))) if len(planes) else ctx.true())


@contract(P, "sphere-rotation/chordal-distances-and-kriging-inputs-invariant",
          functions=["tools/geometric.py:latlon2pos", "krige/base.py:Krige._get_krige_mat", "krige/base.py:Krige._get_krige_vecs"],
          timeout=60)
def sphere_rotation(ctx):
    """a rotation Q of the sphere (Q^T Q = I) leaves the chordal distance of two embedded lat-lon points
    unchanged; lat-lon kriging without drift sees positions only through these distances (read-set facts in
    props/C13), hence it is invariant under rotations of the sphere"""
    lat1, lat2 = ctx.real("lat1", lo=-90, hi=90), ctx.real("lat2", lo=-90, hi=90)
    lon1, lon2 = ctx.real("lon1", lo=-360, hi=360), ctx.real("lon2", lo=-360, hi=360)
    R = ctx.real("R", pos=True)
    ctx.require(ctx.gt(R, 0))
    p = geo.latlon2pos([[lat1, lat2], [lon1, lon2]], radius=R)
    d = p[:, 0] - p[:, 1]
    # every rotation of the sphere is a product of three elementary rotations (SO(3), proved in C12)
    ang = ctx.reals("q", 3, angle=True)
    Q = geo.matrix_rotate(3, ang)
    qd = Q @ d
    ctx.ensure("rotated-chord^2=chord^2", ctx.eq(sum(x * x for x in qd), sum(x * x for x in d)))
    qp = Q @ p
    ctx.ensure("rotated-points-stay-on-the-sphere", ctx.eq(sum(qp[i, 0] * qp[i, 0] for i in range(3)), R * R))


@contract(P, "Krige.set_condition[fit_variogram,latlon]/great-circle-variogram-in-the-model's-length-unit",
          params={"geo": ["radian", "degree", "km", "arbitrary"]},
          functions=["krige/base.py:Krige.set_condition"], bounded="3 conditioning points, geo_scale in the four named units")
def krige_fit_geo_scale(ctx, geo):
    """Krige(..., fit_variogram=True) on a lat-lon model estimates the empirical variogram of the
    conditioning data itself: the great-circle bins must be in the unit of the model's length scale
    (geo_scale), otherwise the fitted length scale is off by the unit factor"""
    import gstools.krige.base as kb
    gsc = {"radian": 1.0, "degree": gs.DEGREE_SCALE, "km": gs.KM_SCALE, "arbitrary": 2.5}[geo]
    vals = [ctx.real("v%d" % i, lo=-2, hi=2) for i in range(3)]
    log, flog = [], []

    class FitG(gs.Gaussian):
        def fit_variogram(self, x_data, y_data, anis=True, sill=None, **kw):
            flog.append((x_data, y_data, sill))
            return {}, None

    def ghost(*a, **kw):
        log.append((a, kw))
        return np.array([0.5, 1.0]), np.array([0.3, 0.6])

    model = FitG(latlon=True, geo_scale=gsc, var=1.0, len_scale=gsc * 0.3)
    cpos = [[10.0, 20.0, -35.0], [5.0, 170.0, -120.0]]
    real = kb.vario_estimate
    kb.vario_estimate = ghost
    try:
        with warnings.catch_warnings():
            warnings.simplefilter("ignore")
            # a user-supplied pseudo inverse is a documented option: the kriging matrix is not under this contract
            k = gs.krige.Ordinary(model, cpos, _arr(ctx, vals), fit_variogram=True,
                                  pseudo_inv_type=lambda A: np.zeros(np.shape(A)))
    finally:
        kb.vario_estimate = real
    ctx.ensure("estimated-once,fitted-once", len(log) == 1 and len(flog) == 1)
    if len(log) != 1:
        return
    a, kw = log[0]
    ctx.ensure("vario_estimate(latlon=True)", bool(kw.get("latlon")) is True and "direction" not in kw)
    ctx.ensure("vario_estimate(geo_scale=model.geo_scale)", "geo_scale" in kw and float(kw["geo_scale"]) == float(gsc)
               and float(k.model.geo_scale) == float(gsc))
    ctx.ensure("vario_estimate(pos=lat-lon-of-the-conditions)", np.shape(a[0]) == (2, 3) and
               bool(np.all(np.asarray(a[0], dtype=float) == np.asarray(cpos))))
    mean_v = sum(vals) / 3
    ctx.ensure("vario_estimate(field=conditioning-values)", ctx.eq(a[1], _arr(ctx, vals)))
    ctx.ensure("fit_variogram(sill=data-variance)", ctx.eq(flog[0][2], sum((v - mean_v) * (v - mean_v) for v in vals) / 3))


@contract(P, "binning.standard_bins[latlon]/equal-bins-up-to-a-third-of-the-great-circle-box-diameter",
          params=[{"bin_no": b, "n": n, "mesh": "unstructured"} for b in (None, 4) for n in (2, 4)] +
                 [{"bin_no": None, "n": 4, "mesh": "structured"}],
          functions=["variogram/binning.py:standard_bins", "variogram/binning.py:_sturges"], timeout=40)
def standard_bins_latlon(ctx, bin_no, n, mesh):
    """docstring: bins from 0 to max_dist = one third of the box diameter of the points, for lat-lon the
    points on the sphere of radius geo_scale and the diameter converted to a great-circle distance in the
    unit of geo_scale; number of bins by Sturges' rule ceil(2 log2(n) + 1) unless given.
    Modular: `latlon2pos` and `chordal_to_great_circle` are used through their contracts above (the
    embedding returns SOME points, the conversion is a function of (chord, radius)); what is checked
    here is that standard_bins hands them the right arguments and composes them as documented."""
    import gstools.variogram.binning as B
    m = ctx.m
    R = ctx.real("R", lo=0.5, hi=7000.0)
    ctx.require(ctx.gt(R, 0))
    if mesh == "structured":        # 2 x 2 grid given by its axes: every NODE is a point of the data set
        lat_ax = [ctx.real("lat%d" % i, lo=-90, hi=90) for i in range(2)]
        lon_ax = [ctx.real("lon%d" % i, lo=-180, hi=360) for i in range(2)]
        lat = [lat_ax[0], lat_ax[0], lat_ax[1], lat_ax[1]]      # C order: last axis fastest
        lon = [lon_ax[0], lon_ax[1], lon_ax[0], lon_ax[1]]
    else:
        lat = [ctx.real("lat%d" % i, lo=-90, hi=90) for i in range(n)]
        lon = [ctx.real("lon%d" % i, lo=-180, hi=360) for i in range(n)]
    emb = [[ctx.real("e%d_%d" % (a, i), lo=-1, hi=1) for i in range(n)] for a in range(3)]
    calls = {"l2p": [], "c2g": []}

    def ghost_latlon2pos(pos, radius=1.0, **kw):
        calls["l2p"].append((pos, radius, kw))
        return _arr(ctx, emb)

    def ghost_c2gc(dist, radius=1.0):
        calls["c2g"].append((dist, radius))
        return m.fn("c13_c2gc", dist, radius)

    real = B.latlon2pos, B.chordal_to_great_circle
    B.latlon2pos, B.chordal_to_great_circle = ghost_latlon2pos, ghost_c2gc
    try:
        with warnings.catch_warnings():
            warnings.simplefilter("ignore")
            if mesh == "structured":
                bins = B.standard_bins([lat_ax, lon_ax], latlon=True, mesh_type="structured", bin_no=bin_no, geo_scale=R)
            else:
                bins = B.standard_bins([lat, lon], latlon=True, bin_no=bin_no, geo_scale=R)
    finally:
        B.latlon2pos, B.chordal_to_great_circle = real
    want_no = {2: 3, 4: 5}[n]           # ceil(2 log2(2) + 1) = 3, ceil(2 log2(4) + 1) = 5
    nb = want_no if bin_no is None else bin_no
    ctx.ensure("bin-count(Sturges-or-given)", ctx.shape_eq(bins, (nb + 1,)))
    ctx.ensure("embedding-called-with(lat,lon;radius=geo_scale)",
               ctx.And(len(calls["l2p"]) == 1 and not calls["l2p"][0][2], ctx.shape_eq(calls["l2p"][0][0], (2, n)),
                       ctx.eq(calls["l2p"][0][0], _arr(ctx, [lat, lon])), ctx.eq(calls["l2p"][0][1], R))
               if calls["l2p"] else False)
    if np.shape(bins) != (nb + 1,) or len(calls["c2g"]) != 1:
        ctx.ensure("diameter-converted-once", False)
        return
    diag2 = 0
    for ax_ in emb:
        lo_, hi_ = ax_[0], ax_[0]
        for v in ax_[1:]:
            lo_, hi_ = m.min(lo_, v), m.max(hi_, v)
        diag2 = diag2 + (hi_ - lo_) * (hi_ - lo_)
    ctx.ensure("conversion-called-with(box-diameter,geo_scale)",
               ctx.And(ctx.eq(calls["c2g"][0][0] * calls["c2g"][0][0], diag2), ctx.ge(calls["c2g"][0][0], 0),
                       ctx.eq(calls["c2g"][0][1], R)))
    gc_ = m.fn("c13_c2gc", calls["c2g"][0][0], R)
    ctx.ensure("first-edge=0", ctx.eq(bins[0], 0))
    ctx.ensure("last-edge=great-circle(box-diameter)/3", ctx.eq(bins[nb], gc_ / 3))
    ctx.ensure("equally-spaced", ctx.And(*[ctx.eq(bins[i], bins[nb] * i / nb) for i in range(nb + 1)]))


symrun.CONC_FUNCS["c13_c2gc"] = lambda d, r: float(2 * r * np.arcsin(min(max(d / (2 * r), 0.0), 1.0)))


@contract(P, "CovModel.pykrige_vario[latlon]/great-circle-degrees-to-chordal-distance-in-geo_scale-units",
          functions=["covmodel/base.py:CovModel.pykrige_vario", "covmodel/base.py:CovModel.vario_yadrenko",
                     "tools/geometric.py:great_circle_to_chordal"], timeout=40)
def pykrige_vario_latlon(ctx):
    """PyKrige hands great-circle distances in DEGREES to the variogram function; the model's length scale is in
    the unit of geo_scale (sphere radius R): the variogram is evaluated at the chord 2 R sin(angle / 2)"""
    m = ctx.m
    U = _umodel(ctx)
    R = ctx.real("R", lo=0.5, hi=7000.0)
    v, l = ctx.real("var", pos=True), ctx.real("len", pos=True)
    ctx.require(ctx.And(ctx.gt(R, 0), ctx.gt(v, 0), ctx.gt(l, 0)))
    with warnings.catch_warnings():
        warnings.simplefilter("ignore")
        mod = U(latlon=True, geo_scale=R, var=v, len_scale=l)
    deg = ctx.real("deg", lo=0.0, hi=180.0)
    ctx.require(ctx.And(ctx.ge(deg, 0), ctx.le(deg, 180)))
    got = mod.pykrige_vario(r=deg)
    angle = deg * m.pi / 180
    want = mod.variogram(2 * R * m.sin(angle / 2))
    ctx.ensure("vario(degrees)=variogram(2R.sin(angle/2))", ctx.eq(got, want))
    plain = U(dim=2, var=v, len_scale=l)
    ctx.ensure("non-geographic:plain-variogram", ctx.eq(plain.pykrige_vario(r=deg), plain.variogram(deg)))


@contract(P, "Krige[latlon,drift]/longitudes-in-any-range-describe-the-same-points",
          params={"variant": ["Universal-linear", "Ordinary", "Simple", "ExtDrift"], "shift": [360.0, -360.0, 720.0]},
          functions=["krige/base.py:Krige._get_krige_mat", "krige/base.py:Krige._get_krige_vecs", "tools/geometric.py:pos2latlon",
                     "tools/geometric.py:latlon2pos"],
          bounded="native run: 5 conditioning points around the date line, 4 targets, Gaussian model on the unit sphere")
def latlon_lon_range(ctx, variant, shift):
    """lon and lon +- 360 are the same point: kriging (incl. a functional drift in the coordinates, which is evaluated
    on both sides of the kriging system) gives the same estimate and variance, and the conditioning values are
    reproduced whatever range the longitudes are given in"""
    with symrun.native():
        m = gs.Gaussian(latlon=True, var=1.0, len_scale=0.6)
        lat = np.array([10.0, 20.0, -5.0, 30.0, 0.0])
        lon = np.array([170.0, 175.0, -175.0, -170.0, 179.0])
        val = [1.0, 2.0, 0.5, -1.0, 0.3]
        ext = [0.2, -0.4, 1.0, 0.6, 0.1]
        tlat, tlon = np.array([12.0, -3.0, 25.0, 5.0]), np.array([172.0, -178.0, 178.0, -172.0])
        text = [0.5, 0.1, -0.2, 0.9]

        def mk(lo):
            if variant == "Universal-linear":
                return gs.krige.Universal(m, [lat, lo], val, "linear"), {}
            if variant == "Ordinary":
                return gs.krige.Ordinary(m, [lat, lo], val), {}
            if variant == "Simple":
                return gs.krige.Simple(m, [lat, lo], val, mean=0.3), {}
            return gs.krige.ExtDrift(m, [lat, lo], val, ext), {"ext_drift": text}
        # the same points with some longitudes given in another range
        lon2 = lon.copy()
        lon2[lon2 < 0] += shift if shift > 0 else 0.0
        lon2[lon2 > 0] += shift if shift < 0 else 0.0
        tlon2 = tlon.copy()
        tlon2[tlon2 < 0] += 360.0
        k1, kw = mk(lon)
        k2, _ = mk(lon2)
        f1, v1 = k1([tlat, tlon], **kw)
        f2, v2 = k2([tlat, tlon2], **kw)
        same = bool(np.allclose(f1, f2, rtol=1e-8, atol=1e-10) and np.allclose(v1, v2, rtol=1e-8, atol=1e-10))
        kwc = {"ext_drift": ext} if variant == "ExtDrift" else {}
        fc, vc = k2([lat, lon2], **kwc)
        exact = bool(np.allclose(fc, val, rtol=1e-8, atol=1e-8) and np.allclose(vc, 0.0, atol=1e-8))
    ctx.ensure("same-points-in-another-longitude-range=>same-result", same)
    ctx.ensure("conditioning-values-reproduced", exact)
