r"""Shared infrastructure for the kriging contracts (C05, C06).

* contract stub for the matrix inverse (T5): `spl.inv`, `P_INV["pinv"]`, `P_INV["pinvh"]` of
  gstools.krige.base record their argument A and, in symbolic runs, return a matrix K of fresh
  reals; the ASSUMED dependency contract  K.A = I and A.K = I  (scipy.linalg.inv/pinv/pinvh on a
  non-singular matrix) is handed out by `inverse_contract` and used by the lemma obligations only
  through `using=`.  Natively the real routine runs and the instance is checked.
* the compiled kernels `calc_field_krige(_and_variance)` are replaced (symbolic runs) by the
  postconditions proved for krigesum.pyx in C15 (contracts/kernels.py):
      field[k] = sum_i cond[i] * q(i,k),  error[k] = sum_i vec[i,k] * q(i,k),
      q(i,k)   = sum_j mat[i,j] * vec[j,k]
* `scipy.spatial.distance.cdist` (bound by name in krige/base.py) -> sqrt(sum (a-b)^2) on symbolic
  positions.
* builders for symbolic models, positions, kriging set-ups and the TEXTBOOK kriging system
  (Wackernagel 2003, ch. 3, 11, 37-38; Chiles & Delfiner 2012, 3.3-3.4):
      [[C + diag(err), 1, F^T, E^T], [1, 0, 0, 0], [F, 0, 0, 0], [E, 0, 0, 0]] (w, mu) = (c0, 1, f(x0), e(x0))
"""
import warnings

import numpy as np
import z3

import gstools as gs
import gstools.krige.base as kb
from gsvc import symrun
from gsvc.symrun import SymReal, wrap, is_sym, symbolic_active
from contracts import gen_common as gc

gc.install()

CALLS = {"inv": [], "kernel": [], "vecs": []}
_KCACHE = {}
REAL = {}
T5_LABEL = ("T5 (assumed): scipy.linalg.inv / pinv / pinvh return the two-sided inverse of a "
            "non-singular matrix: K.A = I and A.K = I")
T8_PSD_LABEL = ("T8/C02 (assumed): the covariance matrix of a positive definite model is positive "
                "definite, hence so is its inverse: k^T K k >= 0")
COR0_LABEL = "T8/C03 (assumed): normalised correlation function: cor(0) = 1"
NORM_RT_LABEL = ("C18 round trip (assumed here, proved per normalizer class in C18): "
                 "denormalize(normalize(y)) = y on the normalize range")


def reset():
    """called at the start of every contract execution (each path re-executes the contract)"""
    for v in CALLS.values():
        del v[:]
    _KCACHE.clear()


def _has_obj(x):
    return isinstance(x, np.ndarray) and x.dtype == object


# ---------------------------------------------------------------------------------------
# matrix inverse: contract stub
# ---------------------------------------------------------------------------------------
def _inv_stub(kind, real):
    def inv(mat, *a, **kw):
        if symbolic_active() and _has_obj(mat) and is_sym(mat):
            A = symrun.symarr(mat)
            m = A.shape[0]
            # keyed by the SIMPLIFIED entries: `x / 1` and `x` are the same argument (the simplified terms are
            # kept alive in the cache entry, z3 ids are reused after garbage collection)
            simp = [z3.simplify(e.t) for e in A.ravel().tolist()]
            key = (m,) + tuple(t.get_id() for t in simp)
            ent = _KCACHE.get(key)
            if ent is None:
                # inv is a FUNCTION of its argument: a syntactically identical matrix gets the
                # same result; anything else a fresh unknown matrix
                idx = len(_KCACHE)
                K = np.empty((m, m), dtype=object)
                for i in range(m):
                    for j in range(m):
                        K[i, j] = SymReal(z3.Real("Kinv!%d!%d_%d" % (idx, i, j)))
                ent = _KCACHE[key] = (A, K, simp)
            CALLS["inv"].append({"kind": kind, "A": ent[0], "K": ent[1]})
            return ent[1].copy()
        if _has_obj(mat):
            mat = np.array(np.asarray(mat).tolist(), dtype=float)
        K = real(mat, *a, **kw)
        CALLS["inv"].append({"kind": kind, "A": np.array(mat, dtype=float), "K": np.array(K, dtype=float)})
        return K
    inv.__name__ = "inv_stub_" + kind
    inv._gsvc = True
    return inv


class _SplProxy:
    """stands in for the module global `spl` (scipy.linalg) of krige/base.py"""

    def __init__(self, real):
        self.__dict__["_real"] = real
        self.__dict__["inv"] = _inv_stub("inv", real.inv)

    def __getattr__(self, name):
        return getattr(self._real, name)


# ---------------------------------------------------------------------------------------
# kernel postconditions (C15) as spec functions
# ---------------------------------------------------------------------------------------
def kq(M, V, i, k):
    """q(i, k) = sum_j M[i, j] * V[j, k]   (inner sum of both kernels)"""
    q = M[i, 0] * V[0, k]
    for j in range(1, M.shape[0]):
        q = q + M[i, j] * V[j, k]
    return q


def _kernel_sums(M, V, c):
    M, V, c = (np.asarray(x, dtype=object) for x in (M, V, c))
    m, T = M.shape[0], V.shape[1]
    field, error = np.empty(T, dtype=object), np.empty(T, dtype=object)
    for k in range(T):
        f = e = None
        for i in range(m):
            q = kq(M, V, i, k)
            f = c[i] * q if f is None else f + c[i] * q
            e = V[i, k] * q if e is None else e + V[i, k] * q
        field[k] = wrap(0) if f is None else wrap(f)
        error[k] = wrap(0) if e is None else wrap(e)
    return field, error


def spec_calc_field_krige_and_variance(krig_mat, krig_vecs, cond, num_threads=None):
    return _kernel_sums(krig_mat, krig_vecs, cond)


def spec_calc_field_krige(krig_mat, krig_vecs, cond, num_threads=None):
    return _kernel_sums(krig_mat, krig_vecs, cond)[0]


def _logged_kernel(name, stub):
    def f(krig_mat, krig_vecs, cond, num_threads=None):
        ms, vs, cs = np.shape(krig_mat), np.shape(krig_vecs), np.shape(cond)
        # preconditions of the kernel contracts (not checked by the kernels: boundscheck=False)
        pre = (len(ms) == 2 and len(vs) == 2 and len(cs) == 1 and ms[1] >= ms[0] and vs[0] >= ms[0]
               and cs[0] >= ms[0])
        CALLS["kernel"].append({"name": name, "mat": krig_mat, "vecs": krig_vecs, "cond": cond, "pre": pre})
        return stub(krig_mat, krig_vecs, cond, num_threads)
    f.__name__ = name
    f._gsvc = True
    return f


# ---------------------------------------------------------------------------------------
# pairwise distances
# ---------------------------------------------------------------------------------------
def _dist_term(p, q):
    s = None
    for a, b in zip(p, q):
        t = (wrap(a) - b) * (wrap(a) - b)
        s = t if s is None else s + t
    return symrun.uf("sqrt", s)


def _mk_cdist(real):
    def cdist(XA, XB, *a, **kw):
        if symbolic_active() and (is_sym(XA) or is_sym(XB)) and not a and not kw:
            XA, XB = np.asarray(XA, dtype=object), np.asarray(XB, dtype=object)
            out = np.empty((XA.shape[0], XB.shape[0]), dtype=object)
            for i in range(XA.shape[0]):
                for j in range(XB.shape[0]):
                    out[i, j] = _dist_term(XA[i], XB[j])
            return out
        if _has_obj(XA) or _has_obj(XB):       # object arrays of numerals
            XA, XB = (np.array(np.asarray(x).tolist(), dtype=float) for x in (XA, XB))
        return real(XA, XB, *a, **kw)
    cdist._gsvc = True
    return cdist


def _sh_einsum(spec, *ops, **kw):
    """np.einsum("i,ij,j", c, M, v) on symbolic operands (Krige.get_mean)"""
    if symbolic_active() and any(is_sym(o) for o in ops):
        if spec.replace(" ", "") != "i,ij,j" or kw:
            raise symrun.Unsupported("np.einsum(%r) on symbolic operands" % spec)
        c, M, v = (np.asarray(o, dtype=object) for o in ops)
        r = None
        for i in range(M.shape[0]):
            for j in range(M.shape[1]):
                t = wrap(c[i]) * M[i, j] * v[j]
                r = t if r is None else r + t
        return r
    return np.einsum(spec, *ops, **kw)


_INSTALLED = False


def install():
    """idempotent; verifier process only, never written to /repo"""
    global _INSTALLED
    if _INSTALLED:
        return
    _INSTALLED = True
    REAL["spl"], REAL["P_INV"] = kb.spl, dict(kb.P_INV)
    REAL["kv"], REAL["k"] = kb.calc_field_krige_and_variance_c, kb.calc_field_krige_c
    kb.spl = _SplProxy(kb.spl)
    for k in list(kb.P_INV):
        kb.P_INV[k] = _inv_stub(k, REAL["P_INV"][k])
    kb.calc_field_krige_and_variance_c = _logged_kernel(
        "calc_field_krige_and_variance",
        gc._kernel_stub(REAL["kv"], spec_calc_field_krige_and_variance))
    kb.calc_field_krige_c = _logged_kernel(
        "calc_field_krige", gc._kernel_stub(REAL["k"], spec_calc_field_krige))
    kb.cdist = _mk_cdist(kb.cdist)
    symrun._NP_OVERRIDES["einsum"] = _sh_einsum
    symrun.SHIM_LOG.extend([
        "gstools.krige.base.spl.inv / P_INV['pinv'] / P_INV['pinvh'] -> contract stub: argument recorded, "
        "result = fresh unknown matrix K in symbolic runs (assumed T5: K.A = I, A.K = I), real routine natively",
        "gstools.krige.base.calc_field_krige_c / calc_field_krige_and_variance_c -> kernel postconditions "
        "(C15) as spec functions in symbolic runs (contracts/krige_common.py), compiled kernels natively",
        "gstools.krige.base.cdist -> sqrt(sum (a-b)^2) on symbolic positions",
        "np.einsum('i,ij,j') on symbolic operands -> explicit double sum",
    ])


install()


# ---------------------------------------------------------------------------------------
# small helpers
# ---------------------------------------------------------------------------------------
def quiet(f, *a, **k):
    with warnings.catch_warnings():
        warnings.simplefilter("ignore")
        return f(*a, **k)


def arr(ctx, xs):
    a = np.array(xs, dtype=object)
    return a if ctx.mode == "sym" else a.astype(float)


def lemma(ctx, name, cond, **kw):
    """an obligation whose formula is returned for later `using=` clauses; it is NOT added to the
    path assumptions (a lemma that is false for the code under verification fails as an obligation
    and cannot make later obligations vacuous unless they list it)"""
    if ctx.mode == "conc":
        ctx.ensure(name, cond)
        return cond
    f = symrun.fbool(cond)
    ctx.ensure(name, f, **kw)
    return f


def guarded(fn):
    """an exception raised by the code under verification on in-contract input is a failed
    obligation (`completes-without-exception`), not a checker error; engine-internal signals pass"""
    import functools

    @functools.wraps(fn)
    def wrapper(ctx, **p):
        try:
            fn(ctx, **p)
        except (symrun.Unsupported, symrun.PathLimit, symrun._ContractReturn, symrun.Reject):
            raise
        except Exception as e:      # noqa
            ctx.ensure("completes-without-exception", False)
            if ctx.mode == "conc":
                ctx.results["exception"] = repr(e)[:300]
            ctx.done()
        ctx.ensure("completes-without-exception", True)
    return wrapper


def assumptions(ctx):
    """requires / hints made so far (for `using=` clauses)"""
    return list(ctx.path.assume) + list(ctx.path.pc) if ctx.mode == "sym" else []


def note_assumption(ctx, label):
    if ctx.mode == "sym" and label not in ctx.path.hints:
        ctx.path.hints.append(label)


def terms(xs):
    """non-numeral, non-atomic z3 terms of the given values (for `generalize=`)"""
    out = GenList()
    for v in np.asarray(xs, dtype=object).ravel().tolist():
        if isinstance(v, SymReal) and symrun._num(v.t) is None and not z3.is_const(v.t):
            out.append(v)
    return dedupe(out)


class GenList(list):
    """list of terms for `generalize=`; `+` keeps one representative per value-identical term
    (identical after z3.simplify): two spellings of the same term must become the SAME atom"""

    def __add__(self, other):
        return dedupe(list(self) + list(other))

    def __radd__(self, other):
        return dedupe(list(other) + list(self))


def dedupe(ts):
    out, seen, keep = GenList(), set(), []
    for v in ts:
        s = z3.simplify(symrun.lift(v))
        keep.append(s)
        if s.get_id() in seen or z3.is_const(s) or symrun._num(s) is not None:
            continue
        seen.add(s.get_id())
        out.append(v)
    out._keep = keep
    return out


def dot(xs, ys):
    r = None
    for x, y in zip(xs, ys):
        t = x * y
        r = t if r is None else r + t
    return 0 if r is None else r


def delta(i, j):
    return 1 if i == j else 0


# ---------------------------------------------------------------------------------------
# symbolic set-up
# ---------------------------------------------------------------------------------------
CENTERS = {1: {"c": [[0.0], [2.0], [3.6]], "t": [[1.0], [-1.2], [5.0], [-2.6], [6.4]]},
           2: {"c": [[0.0, 0.0], [2.0, 0.5], [0.7, 2.2]], "t": [[1.0, 1.0], [-0.8, 1.4]]},
           3: {"c": [[0.0, 0.0, 0.0], [2.0, 0.5, 0.3], [0.7, 2.2, -0.4]], "t": [[1.0, 1.0, 1.0], [-0.8, 1.4, 0.5]]}}


def sym_model(ctx, dim, nugget="sym", tag="", aniso=True, cls=None, anis_not_one=False):
    """generic model class (uninterpreted normalised correlation): covers every model class"""
    U = cls if cls is not None else gc.generic_model_class(ctx)
    v = ctx.real(tag + "var", lo=0.5, hi=2.0)
    l = ctx.real(tag + "len", lo=0.7, hi=2.0)
    ctx.require(ctx.And(ctx.gt(v, 0), ctx.gt(l, 0)))
    kw = {}
    if nugget == "sym":
        g = ctx.real(tag + "nug", lo=0.0, hi=0.5)
        ctx.require(ctx.ge(g, 0))
        kw["nugget"] = g
    elif nugget == "pos":
        g = ctx.real(tag + "nug", lo=0.05, hi=0.5)
        ctx.require(ctx.gt(g, 0))
        kw["nugget"] = g
    if aniso and dim > 1:
        anis = [ctx.real(tag + "anis%d" % i, lo=0.5, hi=2.0) for i in range(dim - 1)]
        for r in anis:
            ctx.require(ctx.gt(r, 0))
            if anis_not_one:        # clearly anisotropic start model (outside the isclose window of is_isotropic)
                ctx.require(ctx.Or(ctx.gt(r, 1.001), ctx.lt(r, 0.999)))
        kw["anis"] = anis
        kw["angles"] = ctx.reals(tag + "ang", dim * (dim - 1) // 2, angle=True)
    return quiet(U, dim=dim, var=v, len_scale=l, **kw)


def positions(ctx, tag, dim, n, kind):
    """(dim, n) positions; native samples lie in disjoint boxes (well conditioned systems), the
    symbolic values are unconstrained"""
    cen = CENTERS[dim][kind]
    return arr(ctx, [[ctx.real("%s%d_%d" % (tag, d, i), lo=cen[i][d] - 0.35, hi=cen[i][d] + 0.35)
                      for i in range(n)] for d in range(dim)])


symrun.CONC_FUNCS.setdefault("udn", lambda z: float(np.sinh(z)))
symrun.CONC_FUNCS.setdefault("un", lambda x: float(np.arcsinh(x)))
symrun.CONC_FUNCS["udn2"] = lambda z: float(np.sinh(z) / 2.0)
symrun.CONC_FUNCS["un2"] = lambda x: float(np.arcsinh(2.0 * x))
symrun.CONC_FUNCS["udnp"] = lambda z, lam: float(np.sinh(lam * z) / lam)
symrun.CONC_FUNCS["unp"] = lambda x, lam: float(np.arcsinh(lam * x) / lam)
symrun.CONC_FUNCS["udrift0"] = lambda *x: float(0.8 * x[0] + 0.3 * np.sin(sum(x)) + 0.25 * sum(x[1:]))
symrun.CONC_FUNCS["udrift1"] = lambda *x: float(np.cos(0.7 * x[0]) + 0.5 * x[-1] * x[-1])


def _ufmap(ctx, name, *data):
    a = [np.asarray(d, dtype=object) for d in data]
    shp = np.broadcast(*a).shape
    a = [np.broadcast_to(x, shp) for x in a]
    out = np.empty(shp, dtype=object)
    for i in range(out.size):
        out.reshape(-1)[i] = ctx.m.fn(name, *[x.reshape(-1)[i] for x in a])
    if out.ndim == 0:
        return out.item()
    return out if ctx.mode == "sym" else out.astype(float)


def generic_drift(ctx, k):
    """an arbitrary user drift function: uninterpreted function of the ORIGINAL coordinates"""
    def f(*pos):
        return _ufmap(ctx, "udrift%d" % k, *pos)
    f.__name__ = "udrift%d" % k
    return f


def normalizer(ctx, kind):
    """-> (argument for `normalizer=`, normalize spec, denormalize spec)"""
    import gstools.normalizer as gn
    m = ctx.m
    if kind == "none":
        return None, (lambda x: x), (lambda z: z)
    if kind == "LogNormal":
        return gn.LogNormal, (lambda x: m.log(x)), (lambda z: m.exp(z))
    if kind == "genericp":      # a normalizer with one parameter `lam` that `fit` re-estimates
        class GenericP(gn.Normalizer):
            fit_log = []

            def _denormalize(self, data):
                return _ufmap(ctx, "udnp", data, self.lam)

            def _normalize(self, data):
                return _ufmap(ctx, "unp", data, self.lam)

            def fit(self, data, skip=None, **kwargs):
                """ghost of Normalizer.fit (an optimiser, T5 residue): assumed contract 'changes the
                parameter to some in-range value'"""
                self.fit_log.append(data)
                self.lam = self.lam_fitted
        g = GenericP()
        GenericP.fit_log = []
        g.lam = ctx.real("lam0", lo=0.5, hi=1.5)
        g.lam_fitted = ctx.real("lam_fitted", lo=0.5, hi=1.5)
        ctx.require(ctx.And(ctx.gt(g.lam, 0), ctx.gt(g.lam_fitted, 0)))
        return g, (lambda x: m.fn("unp", x, g.lam)), (lambda z: m.fn("udnp", z, g.lam))
    if kind == "generic2":      # a second, different invertible normalizer
        class Generic2(gn.Normalizer):
            def _denormalize(self, data):
                return _ufmap(ctx, "udn2", data)

            def _normalize(self, data):
                return _ufmap(ctx, "un2", data)
        return Generic2(), (lambda x: m.fn("un2", x)), (lambda z: m.fn("udn2", z))
    if kind == "generic":
        class Generic(gn.Normalizer):
            def _denormalize(self, data):
                return _ufmap(ctx, "udn", data)

            def _normalize(self, data):
                return _ufmap(ctx, "un", data)
        return Generic(), (lambda x: m.fn("un", x)), (lambda z: m.fn("udn", z))
    raise KeyError(kind)


def mean_trend(ctx, tag, kind, dim):
    """-> (argument, spec function point coordinates -> value)"""
    if kind == "none":
        return None, (lambda pt: 0)
    if kind == "const":
        c = ctx.real(tag + "_c", lo=-1.0, hi=1.0)
        return c, (lambda pt: c)
    if kind == "callable":
        co = [ctx.real("%s_a%d" % (tag, d), lo=-0.5, hi=0.5) for d in range(dim)]
        off = ctx.real(tag + "_b", lo=-1.0, hi=1.0)

        def f(*pos):
            return sum(a * p for a, p in zip(co, pos)) + off
        return f, (lambda pt: sum(a * p for a, p in zip(co, pt)) + off)
    raise KeyError(kind)


class Setup:
    pass


VARIANTS = {
    # name: (class, unbiased, functional drift, number of external drifts, trend)
    "simple": ("Simple", False, None, 0),
    "ordinary": ("Ordinary", True, None, 0),
    "universal": ("Universal", True, "generic1", 0),
    "universal-linear": ("Universal", True, "linear", 0),
    "extdrift": ("ExtDrift", True, None, 1),
    "detrended": ("Detrended", False, None, 0),
    "universal+ext": ("Krige", True, "generic1", 1),
    "biased+drift": ("Krige", False, "generic1", 0),
    "universal2": ("Universal", True, "generic2", 0),
    # ordinary system with a user mean (general Krige class, unbiased by default; what `ordinary.mean = m` gives)
    "ordinary+mean": ("Krige", True, None, 0),
}


def min_points(variant, dim):
    cls, unb, fd, ne = VARIANTS[variant]
    di = 0 if fd is None else dim if fd == "linear" else int(fd[-1])
    return max(1, int(unb) + di + ne)


def build(ctx, variant, n, dim, err="nugget", norm="none", mean="none", trend="none",
          pinv=(True, "pinv"), nugget="sym", tag="", model=None, cpos=None, vals=None, ext=None, errs=None,
          drift=None, like=None, override=None, ctor_kw=None):
    """a kriging set-up with symbolic model parameters, positions, values, measurement errors and
    drift values, built through the real constructor of the variant's class"""
    cls, unbiased, fd, ne = VARIANTS[variant]
    if like is not None:        # same model, positions, drifts, mean / trend / normalizer (unless given)
        model = like.model if model is None else model
        cpos = like.cpos if cpos is None else cpos
        vals = like.vals if vals is None else vals
        ext = like.ext if ext is None else ext
        drift = like.fdrift if drift is None else drift
        if errs is None and err in ("scalar", "vector") and like.err == err:
            errs = like.errs
    S = Setup()
    S.variant, S.n, S.dim, S.err, S.unbiased = variant, n, dim, err, unbiased
    n_as = len(ctx.path.assume) if ctx.mode == "sym" else 0
    S.model = model if model is not None else sym_model(ctx, dim, nugget=nugget, tag=tag)
    S.model_req = list(ctx.path.assume[n_as:]) if ctx.mode == "sym" else []     # parameter requires
    if like is not None and S.model is like.model:
        S.model_req = list(like.model_req)
    S.cpos = cpos if cpos is not None else positions(ctx, tag + "p", dim, n, "c")
    if cls == "Detrended":              # takes a trend only ("zero mean and no normalizer")
        norm, mean = "none", "none"
        if trend == "none":
            trend = "callable"
    if cls in ("Ordinary", "Universal", "ExtDrift"):
        mean = "none"                   # these classes take no mean
    if like is not None:
        S.narg, S.nm, S.dn, S.norm = like.narg, like.nm, like.dn, like.norm
        S.mean, S.mean_at, S.trend, S.trend_at = like.mean, like.mean_at, like.trend, like.trend_at
    else:
        S.narg, S.nm, S.dn = normalizer(ctx, norm)
        S.norm = norm
        S.mean, S.mean_at = mean_trend(ctx, tag + "mean", mean, dim)
        S.trend, S.trend_at = mean_trend(ctx, tag + "trend", trend, dim)
    for key, val in (override or {}).items():   # settings prepared by the caller
        if key == "norm":
            S.narg, S.nm, S.dn, S.norm = val
        elif key == "mean":
            S.mean, S.mean_at = val
        elif key == "trend":
            S.trend, S.trend_at = val
        else:
            raise KeyError(key)
    S.pts = [[S.cpos[d, a] for d in range(dim)] for a in range(n)]
    S.val_req = list(like.val_req) if like is not None else []
    if vals is not None:
        S.vals = list(vals)
    elif S.norm == "LogNormal":          # normalize range (0, inf): value = trend + u, u > 0
        S.vals = []
        for a in range(n):
            u = ctx.real("%su%d" % (tag, a), lo=0.3, hi=3.0)
            S.val_req.append(ctx.require(ctx.gt(u, 0), "value - trend in the normalize range (0, inf)"))
            S.vals.append(S.trend_at(S.pts[a]) + u)
    else:
        S.vals = [ctx.real("%sv%d" % (tag, a), lo=-2.0, hi=2.0) for a in range(n)]
    # measurement errors
    S.exact = (err == "exact")
    if err in ("nugget", "exact"):
        cond_err = "nugget"
        S.errs = [S.model.nugget] * n
    elif err == "scalar":
        e = errs[0] if errs is not None else ctx.real(tag + "err", lo=0.0, hi=0.4)
        if errs is None:
            ctx.require(ctx.ge(e, 0))
        cond_err = e
        S.errs = [e] * n
    elif err == "vector":
        es = list(errs) if errs is not None else [ctx.real("%serr%d" % (tag, a), lo=0.0, hi=0.4) for a in range(n)]
        if errs is None:
            for e in es:
                ctx.require(ctx.ge(e, 0))
        cond_err = arr(ctx, es)
        S.errs = es
    else:
        raise KeyError(err)
    # drifts
    if drift is not None:
        S.fdrift = list(drift)
        S.fspec = [(lambda pt, f=f: f(*pt)) for f in S.fdrift]
        darg = S.fdrift
    elif fd is None:
        S.fdrift, S.fspec, darg = [], [], None
    elif fd == "linear":
        # documented: "linear" = regional linear drift = the coordinate functions x, [y, z]
        S.fspec = [(lambda pt, d=d: pt[d]) for d in range(dim)]
        darg = "linear"
        S.fdrift = None
    else:
        S.fdrift = [generic_drift(ctx, k) for k in range(int(fd[-1]))]
        S.fspec = [(lambda pt, f=f: f(*pt)) for f in S.fdrift]
        darg = S.fdrift
    S.di = len(S.fspec)
    S.de = ne
    if ne:
        S.ext = ext if ext is not None else arr(ctx, [[ctx.real("%sext%d_%d" % (tag, e, a), lo=-1.5, hi=1.5)
                                                       for a in range(n)] for e in range(ne)])
    else:
        S.ext = None
    S.m = n + int(unbiased) + S.di + S.de
    S.iu, S.if0, S.ie0 = n, n + int(unbiased), n + int(unbiased) + S.di
    kw = dict(exact=S.exact, cond_err=cond_err, pseudo_inv=pinv[0], pseudo_inv_type=pinv[1])
    kw.update(ctor_kw or {})
    K = gs.krige
    vals_arr = arr(ctx, S.vals)
    n0 = len(CALLS["inv"])
    if cls == "Simple":
        S.krige = quiet(K.Simple, S.model, S.cpos, vals_arr, mean=S.mean, normalizer=S.narg, trend=S.trend, **kw)
    elif cls == "Ordinary":
        S.krige = quiet(K.Ordinary, S.model, S.cpos, vals_arr, normalizer=S.narg, trend=S.trend, **kw)
    elif cls == "Universal":
        S.krige = quiet(K.Universal, S.model, S.cpos, vals_arr, darg, normalizer=S.narg, trend=S.trend, **kw)
    elif cls == "ExtDrift":
        S.krige = quiet(K.ExtDrift, S.model, S.cpos, vals_arr, S.ext, normalizer=S.narg, trend=S.trend, **kw)
    elif cls == "Detrended":
        S.krige = quiet(K.Detrended, S.model, S.cpos, vals_arr, S.trend, **kw)
    else:
        S.krige = quiet(K.Krige, S.model, S.cpos, vals_arr, drift_functions=darg, ext_drift=S.ext, mean=S.mean,
                        normalizer=S.narg, trend=S.trend, unbiased=unbiased, **kw)
    S.inv_calls = CALLS["inv"][n0:]
    S.A = S.inv_calls[-1]["A"] if S.inv_calls else None
    S.K = S.inv_calls[-1]["K"] if S.inv_calls else None
    return S


# ---------------------------------------------------------------------------------------
# the textbook kriging system
# ---------------------------------------------------------------------------------------
def dist(ctx, p, q):
    s = None
    for a, b in zip(p, q):
        t = (a - b) * (a - b)
        s = t if s is None else s + t
    return ctx.m.sqrt(s)


def cov(ctx, model, d):
    """the model's covariance at distance d (nugget-free part: var * correlation; C03)"""
    r = quiet(model.covariance, d)
    return r.item() if isinstance(r, np.ndarray) and r.ndim == 0 else r


def cov_field(ctx, model, d):
    """covariance of the field INCLUDING its nugget discontinuity: sill at distance 0 (documented
    cov_nugget), the nugget-free covariance elsewhere; distance 0 is the code's window |d| <= 1e-8"""
    return ctx.m.ite(ctx.le(ctx.m.abs(d), 1e-8), model.sill, cov(ctx, model, d))


def spec_matrix(ctx, S):
    """textbook matrix, index layout cond | unbiased | functional drift | external drift"""
    n, m, model = S.n, S.m, S.model
    iso = model.isometrize(S.cpos)
    A = np.empty((m, m), dtype=object)
    A[...] = 0
    for a in range(n):
        for b in range(n):
            d = dist(ctx, iso[:, a], iso[:, b])
            if a == b:
                # C(0) of the nugget-free part + measurement error (nugget: the model nugget)
                A[a, a] = cov(ctx, model, d) + S.errs[a]
            elif S.exact:
                A[a, b] = cov_field(ctx, model, d)
            else:
                A[a, b] = cov(ctx, model, d)
        if S.unbiased:
            A[a, S.iu] = A[S.iu, a] = 1
        for i, f in enumerate(S.fspec):
            A[a, S.if0 + i] = A[S.if0 + i, a] = f(S.pts[a])
        for e in range(S.de):
            A[a, S.ie0 + e] = A[S.ie0 + e, a] = S.ext[e, a]
    return A


def spec_rhs(ctx, S, tpt, text=None, only_mean=False):
    """textbook right-hand side for ONE target point (original coordinates `tpt`)"""
    model = S.model
    iso = model.isometrize(S.cpos)
    it = model.isometrize(arr(ctx, [[c] for c in tpt]))[:, 0]
    k = [0] * S.m
    for a in range(S.n):
        if only_mean:
            k[a] = 0            # kriging the mean: covariances at infinite distance
        else:
            d = dist(ctx, iso[:, a], it)
            k[a] = cov_field(ctx, model, d) if S.exact else cov(ctx, model, d)
    if S.unbiased:
        k[S.iu] = 1
    for i, f in enumerate(S.fspec):
        k[S.if0 + i] = f(tpt)
    for e in range(S.de):
        k[S.ie0 + e] = text[e]
    return k


def spec_cond(ctx, S):
    """normalize(value - trend(x)) - mean(x), zero padded to the system size"""
    c = [S.nm(S.vals[a] - S.trend_at(S.pts[a])) - S.mean_at(S.pts[a]) for a in range(S.n)]
    return c + [0] * (S.m - S.n)


class InverseContract:
    """KA[i][l]: formula (K.A)_il = delta_il with left-hand side term KAt[i][l]; AK / AKt likewise"""


def inverse_contract(ctx, A, K):
    """the assumed dependency contract of the inverse stub (T5).  Logged as assumption; natively
    the instance is checked (`T5-instance`), which also witnesses that the assumption is
    satisfiable.  The formulas are handed to lemma obligations through `using=` only."""
    m = A.shape[0]
    note_assumption(ctx, T5_LABEL)
    I = InverseContract()
    I.A, I.K, I.m = A, K, m
    I.KAt = [[dot([K[i, j] for j in range(m)], [A[j, l] for j in range(m)]) for l in range(m)] for i in range(m)]
    I.AKt = [[dot([A[i, j] for j in range(m)], [K[j, l] for j in range(m)]) for l in range(m)] for i in range(m)]
    I.KA = [[ctx.eq(I.KAt[i][l], delta(i, l)) for l in range(m)] for i in range(m)]
    I.AK = [[ctx.eq(I.AKt[i][l], delta(i, l)) for l in range(m)] for i in range(m)]
    # natively: the real routine's result is checked against the assumed contract on every sampled
    # instance; symbolically there is nothing to prove (it is the assumption), the obligation only
    # carries the native check
    ctx.ensure("T5-instance(native-check):inverse-routine-returned-two-sided-inverse",
               ctx.And(*[f for row in I.KA + I.AK for f in row]) if ctx.mode == "conc" else True)
    return I


def solution_row(ctx, name, I, i, x, y, Ax, hyps=(), premise=None, gen=()):
    """x_i = (K y)_i  from  (A x)_j = y_j for all j  (formulas `hyps` or the `premise` of an
    implication; Ax[j] are the terms (A x)_j) and (K.A)_il = delta_il:
        x = (K A) x = K (A x) = K y.
    Step 1 is the ring identity K.(A.x) = (K.A).x (no hypotheses), step 2 substitutes."""
    m, K = I.m, I.K
    sym = ctx.mode == "sym"
    Ri = lemma(ctx, "ring-identity:K.(A.x)=(K.A).x", ctx.eq(dot([K[i, j] for j in range(m)], Ax), dot(I.KAt[i], x)),
               using=[], generalize=(terms(I.A) + terms(x) + list(gen)) if sym else None)
    concl = ctx.eq(x[i], dot([K[i, j] for j in range(m)], y))
    goal = concl if premise is None else ctx.Implies(premise, concl)
    return lemma(ctx, name, goal, using=[Ri] + I.KA[i] + list(hyps),
                 generalize=(terms(Ax) + terms(I.KAt[i]) + terms(I.A) + terms(x) + list(gen)) if sym else None)


def targets(ctx, S, t, tag="t", ext=True):
    """t symbolic target points -> (pos (dim, t), list of points, ext drift (de, t) or None)"""
    tp = positions(ctx, tag, S.dim, t, "t")
    pts = [[tp[d, c] for d in range(S.dim)] for c in range(t)]
    te = None
    if S.de and ext:
        te = arr(ctx, [[ctx.real("%sx%d_%d" % (tag, e, c), lo=-1.5, hi=1.5) for c in range(t)]
                       for e in range(S.de)])
    return tp, pts, te


# ---------------------------------------------------------------------------------------
# Lean lemma library (thorough tier): size-generic versions of the linear-algebra lemmas
# ---------------------------------------------------------------------------------------
LEAN_FILE = "lean/GsKrige.lean"
LEAN_LEMMAS = {
    "C05": ["krige_direct_solution", "krige_solution_unique", "krige_estimate_linear", "krige_row",
            "krige_reproduces_rows", "krige_perm_invariant"],
    "C06": ["krige_exact", "col_eq_mulVec_single", "krige_exact_value", "quad_inv_nonneg"],
}


def lean_obligations(rep, prop):
    """re-check lean/GsKrige.lean with `lean` and report one obligation per theorem (backend
    'lean').  A theorem counts as discharged only if lean exits 0, reports no error and no
    'sorry' anywhere in the file."""
    import os
    import re
    import subprocess
    import time
    from gsvc import core
    from gsvc.core import Obligation, DISCHARGED, ERROR
    path = os.path.join(core.VERIF, LEAN_FILE)
    names = LEAN_LEMMAS[prop]
    fns = (LEAN_FILE,)
    if not os.path.exists(path):
        for nm in names:
            rep.add(Obligation("%s/lean/GsKrige.%s" % (prop, nm), ERROR, "lean", 0.0, "lean file missing", functions=fns))
        return
    src = open(path).read()
    t0 = time.time()
    try:
        r = subprocess.run(["lean", path], capture_output=True, text=True, timeout=1500, cwd=os.path.dirname(path))
        out = (r.stdout + r.stderr).strip()
        ok = r.returncode == 0 and "error" not in out and "sorry" not in out and not re.search(r"\bsorry\b", src)
    except Exception as e:      # noqa
        out, ok = repr(e), False
    dt = time.time() - t0
    rep.trust("T7 Lean 4 / Mathlib kernel (`lean %s`, %.0f s)" % (LEAN_FILE, dt))
    for nm in names:
        declared = re.search(r"theorem\s+(GsKrige\.)?%s\b" % re.escape(nm), src) is not None
        st = DISCHARGED if (ok and declared) else ERROR
        rep.add(Obligation("%s/lean/GsKrige.%s" % (prop, nm), st, "lean", dt / max(1, len(names)),
                           "" if st == DISCHARGED else ("lean output: " + out[-600:] if declared else "theorem not found"),
                           functions=fns))
