r"""C04 (decided part) -- algebraic relations of the spectral representation.

Decided: spectrum = var * spectral_density; spectral_rad_pdf = (surface of the (d-1)-sphere of
radius r) * |density(r)| with the documented zero at r ~ 0 for d > 1 and pdf >= 0; rad_fac equals
the sphere surfaces 2, 2 pi r, 4 pi r^2, 2 pi^2 r^3; for Gaussian and Exponential (all dims offered)
d/dr spectral_rad_cdf = spectral_rad_pdf (mechanical differentiation, T4 table), cdf(0) = 0,
ppf(cdf(r)) = r and cdf(ppf(u)) = u, and _has_cdf/_has_ppf agree with the dims for which a value is
returned; the truncated-power-law densities are the documented superposition of their single-scale
densities.
Added after seeding round 3: the analytic overrides equal the tabulated closed-form transforms of
their documented correlations (table at the end of this file), and the numerical default path is a
Hankel transform of the model's correlation in the package's Fourier convention for every history.
NOT decided (residue): that the tabulated pairs ARE Fourier pairs (improper integrals of special
functions: trusted literature table T8); accuracy of the numerical Hankel transform; cdf(inf) = 1.
"""
import warnings

import numpy as np
import z3

import gstools as gs
from gsvc.contract import contract
from gsvc import symrun
from contracts import gen_common as gc
from contracts import axioms as ax
from contracts.calculus import D
from contracts.c11 import _q
from gstools.covmodel import tools as ctools
from gstools.tools import special as sp

P = "C04"


def _gen_model(ctx, dim):
    U = gc.generic_model_class(ctx)
    v, l, s = ctx.real("var", pos=True), ctx.real("len", pos=True), ctx.real("resc", pos=True)
    n = ctx.real("nug", nonneg=True)
    ctx.require(ctx.And(ctx.gt(v, 0), ctx.gt(l, 0), ctx.gt(s, 0), ctx.ge(n, 0)))
    return _q(U, dim=dim, var=v, len_scale=l, rescale=s, nugget=n), v


@contract(P, "CovModel.spectrum/var-times-density", params={"dim": [1, 2, 3], "factor": ["one", "user"]},
          functions=["covmodel/base.py:CovModel.spectrum", "covmodel/base.py:CovModel.spectral_rad_pdf",
                     "covmodel/tools.py:spectral_rad_pdf", "covmodel/tools.py:rad_fac",
                     "covmodel/base.py:CovModel.ln_spectral_rad_pdf", "covmodel/base.py:CovModel.var"])
def spectrum(ctx, dim, factor):
    """factor=user: a model class that overrides `var_factor` (as the truncated-power-law models do):
    var = var_raw * var_factor(); the spectrum is the transform of the covariance var * rho, not of the
    raw intensity"""
    m = ctx.m
    if factor == "one":
        mod, v = _gen_model(ctx, dim)
    else:
        U = gc.generic_model_class(ctx)
        vf = ctx.real("var_factor", lo=0.3, hi=3.0)
        ctx.require(ctx.gt(vf, 0))

        class UF(U):
            def var_factor(self):
                return vf
        v, l, s = ctx.real("var", pos=True), ctx.real("len", pos=True), ctx.real("resc", pos=True)
        ctx.require(ctx.And(ctx.gt(v, 0), ctx.gt(l, 0), ctx.gt(s, 0)))
        mod = _q(UF, dim=dim, var=v, len_scale=l, rescale=s)
        ctx.ensure("var=requested;var_raw=var/var_factor", ctx.And(ctx.eq(mod.var, v), ctx.eq(mod.var_raw * vf, v)))
    k = ctx.real("k", nonneg=True)
    ctx.require(ctx.ge(k, 0))
    dens = mod.spectral_density(k)
    ctx.ensure("spectrum=var*density", ctx.eq(mod.spectrum(k), v * dens))
    surf = {1: 2, 2: 2 * m.pi * k, 3: 4 * m.pi * k * k}[dim]
    pdf = mod.spectral_rad_pdf([k])[0]
    zero = ctx.le(k, 1e-8)
    if dim > 1:
        ctx.ensure("pdf=surface*|density|", ctx.And(
            ctx.Implies(zero, ctx.eq(pdf, 0)),
            ctx.Implies(ctx.Not(zero), ctx.eq(pdf, surf * m.abs(dens)))))
    else:
        ctx.ensure("pdf=surface*|density|", ctx.eq(pdf, surf * m.abs(dens)))
    ctx.ensure("pdf>=0", ctx.ge(pdf, 0))
    ctx.require(ctx.gt(pdf, 0))
    ctx.ensure("ln_pdf=log(pdf)", ctx.eq(mod.ln_spectral_rad_pdf([k])[0], m.log(pdf)))


@contract(P, "covmodel.tools.rad_fac/sphere-surface", params={"dim": [1, 2, 3, 4]},
          functions=["covmodel/tools.py:rad_fac"])
def rad_fac(ctx, dim):
    m = ctx.m
    r = ctx.real("r", pos=True)
    ctx.require(ctx.gt(r, 0))
    surf = {1: 2, 2: 2 * m.pi * r, 3: 4 * m.pi * r * r, 4: 2 * m.pi * m.pi * r * r * r}[dim]
    L = ctx.lemma("sqrt(pi)^2=pi", ctx.eq(m.sqrt(m.pi) * m.sqrt(m.pi), m.pi))
    ctx.ensure("surface-of-(d-1)-sphere", ctx.eq(ctools.rad_fac(dim, r), surf), using=[L])


def _shipped(ctx, cls, dim):
    # (sampling ranges for the native spot checks keep erf / the cdf away from its float saturation at 1:
    #  the symbolic obligations do not use them)
    l, s = ctx.real("len", lo=0.5, hi=1.5), ctx.real("resc", lo=0.7, hi=1.5)
    ctx.require(ctx.And(ctx.gt(l, 0), ctx.gt(s, 0)))
    return _q(getattr(gs, cls), dim=dim, len_scale=l, rescale=s)


@contract(P, "models.spectral_rad_cdf/derivative-is-pdf",
          params=[{"cls": c, "dim": d} for c in ("Gaussian", "Exponential") for d in (1, 2, 3)],
          functions=["covmodel/models.py:<cls>.spectral_rad_cdf", "covmodel/models.py:<cls>.spectral_density",
                     "covmodel/models.py:<cls>._has_cdf"], timeout=60)
def cdf_derivative(ctx, cls, dim):
    m = ctx.m
    mod = _shipped(ctx, cls, dim)
    ctx.ensure("has_cdf", mod.has_cdf is True)
    r = ctx.real("r", lo=0.05, hi=3.0)
    ctx.require(ctx.gt(r, 1e-6))
    pdf = mod.spectral_rad_pdf([r])[0]
    if ctx.mode == "sym":
        cdf = mod.spectral_rad_cdf(r)
        cdf = cdf.item() if isinstance(cdf, np.ndarray) else cdf
        dcdf = symrun.from_term(D(symrun.lift(cdf), r.t))
        hs = [ctx.lemma("sqrt(pi)^2=pi", ctx.eq(m.sqrt(m.pi) * m.sqrt(m.pi), m.pi)),
              ctx.lemma("sqrt(pi)>0", ctx.gt(m.sqrt(m.pi), 0))]
        if cls == "Exponential":
            x = 1 + (r * mod.len_rescaled) ** 2
            if dim == 2:
                hs += [ctx.lemma("sqrt(x)^2=x", ctx.And(ctx.eq(m.sqrt(x) * m.sqrt(x), x), ctx.gt(m.sqrt(x), 0)))]
                # (pi x)^(3/2) = pi x sqrt(pi x), sqrt(pi x) = sqrt(pi) sqrt(x)
                hs += [ctx.hint(ctx.eq(m.pow(m.pi * x, 1.5), m.pi * x * m.sqrt(m.pi * x)), "y^(3/2)=y sqrt y, y>0"),
                       ctx.hint(ctx.eq(m.sqrt(m.pi * x), m.sqrt(m.pi) * m.sqrt(x)), "sqrt(ab)=sqrt a sqrt b")]
        ctx.ensure("d/dr cdf = pdf", ctx.eq(dcdf, pdf))
    else:
        h = 1e-6
        num = (float(mod.spectral_rad_cdf(r + h)) - float(mod.spectral_rad_cdf(r - h))) / (2 * h)
        ctx.ensure("d/dr cdf = pdf", abs(num - float(pdf)) <= 1e-5 * (1 + abs(float(pdf))))
    c0 = mod.spectral_rad_cdf(0.0)
    ctx.ensure("cdf(0)=0", ctx.eq(c0, 0))


@contract(P, "models.spectral_rad_ppf/inverse-of-cdf",
          params=[{"cls": c, "dim": d} for c in ("Gaussian", "Exponential") for d in (1, 2)],
          functions=["covmodel/models.py:<cls>.spectral_rad_ppf", "covmodel/models.py:<cls>.spectral_rad_cdf",
                     "covmodel/models.py:<cls>._has_ppf"], timeout=60)
def ppf_inverse(ctx, cls, dim):
    m = ctx.m
    mod = _shipped(ctx, cls, dim)
    ctx.ensure("has_ppf", mod.has_ppf is True)
    u = ctx.real("u", lo=0.05, hi=0.95)
    ctx.require(ctx.And(ctx.gt(u, 1e-6), ctx.lt(u, 1)))
    r = ctx.real("r", lo=0.05, hi=3.0)
    ctx.require(ctx.gt(r, 0))
    try:
        q = mod.spectral_rad_ppf(u)
    except symrun.Unsupported as e:
        if "non-finite constant" not in str(e):
            raise
        # the real code produced inf for some u < 1 (the inverse of the cdf is finite on [0, 1))
        ctx.ensure("ppf-finite-on-[0,1)", False)
        ctx.done()
    q = q.item() if isinstance(q, np.ndarray) else q
    ctx.ensure("ppf-finite-on-[0,1)", bool(np.isfinite(q)) if ctx.mode == "conc" else True)
    ctx.ensure("ppf>=0", ctx.ge(q, 0))
    back = mod.spectral_rad_cdf(q)
    back = back.item() if isinstance(back, np.ndarray) else back
    ctx.ensure("cdf(ppf(u))=u", ctx.eq(back, u))
    c = mod.spectral_rad_cdf(r)
    c = c.item() if isinstance(c, np.ndarray) else c
    ctx.ensure("cdf-in-[0,1)", ctx.And(ctx.ge(c, 0), ctx.lt(c, 1)))
    rr = mod.spectral_rad_ppf(c)
    rr = rr.item() if isinstance(rr, np.ndarray) else rr
    ctx.ensure("ppf(cdf(r))=r", ctx.eq(rr, r))


@contract(P, "models._has_cdf/agrees-with-returned-values", params={"cls": ["Gaussian", "Exponential"], "dim": [1, 2, 3, 4]},
          functions=["covmodel/models.py:<cls>._has_cdf", "covmodel/models.py:<cls>._has_ppf"])
def has_flags(ctx, cls, dim):
    mod = _q(getattr(gs, cls), dim=dim)
    ctx.ensure("has_cdf<=>cdf-defined", mod.has_cdf == (mod.spectral_rad_cdf(0.5) is not None))
    ctx.ensure("has_ppf<=>ppf-defined", mod.has_ppf == (mod.spectral_rad_ppf(0.5) is not None))
    pdf, cdf, ppf = mod.dist_func
    ctx.ensure("dist_func", (cdf is None) == (not mod.has_cdf) and (ppf is None) == (not mod.has_ppf))


_REAL_IGL = None


def install_inc_gamma_stub():
    """tools.special.inc_gamma_low -> its contract: the lower incomplete gamma function
    gamma(s, x) (uninterpreted) for symbolic arguments"""
    global _REAL_IGL
    if _REAL_IGL is not None:
        return
    _REAL_IGL = sp.inc_gamma_low

    def inc_gamma_low(s, x):
        if symrun.symbolic_active() and (symrun.is_sym(s) or symrun.is_sym(x)):
            return symrun._elementwise(lambda a, b: symrun.uf("inc_gamma_low", a, b), s, x)
        return _REAL_IGL(s, x)
    sp.inc_gamma_low = inc_gamma_low
    import gstools.covmodel.models as mods
    if hasattr(mods, "inc_gamma_low"):
        mods.inc_gamma_low = inc_gamma_low
    symrun.CONC_FUNCS["inc_gamma_low"] = lambda s, x: float(np.asarray(_REAL_IGL(s, np.array([x], dtype=float)))[0])
    symrun.SHIM_LOG.append("gstools.tools.special.inc_gamma_low -> contract gamma(s,x) (uninterpreted) for symbolic arguments")


@contract(P, "special.tpl_spec_dens/documented-superposition", params={"fn": ["tpl_exp_spec_dens", "tpl_gau_spec_dens"], "dim": [1, 2, 3]},
          functions=["tools/special.py:tpl_exp_spec_dens", "tools/special.py:tpl_gau_spec_dens"], timeout=60)
def tpl_superposition(ctx, fn, dim):
    m = ctx.m
    install_inc_gamma_stub()
    f = getattr(sp, fn)
    k = ctx.real("k", lo=0.7, hi=3.0)
    l, low = ctx.real("len", lo=0.5, hi=2.0), ctx.real("low", lo=0.3, hi=2.0)
    H = ctx.real("hurst", lo=0.15, hi=0.95)
    ctx.require(ctx.And(ctx.gt(k, 0), ctx.gt(l, 0), ctx.gt(low, 1e-7), ctx.gt(H, 0.1), ctx.lt(H, 1)))
    if fn == "tpl_gau_spec_dens":
        # stay on one side of the code's series switch z = (k l / 2)^2 > 0.1 for all three scales
        ctx.require(ctx.And(ctx.gt((k * low / 2) ** 2, 0.1), ctx.gt((k * l / 2) ** 2, 0.1)))
    got = f(np.array([k], dtype=object) if ctx.mode == "sym" else np.array([k]), dim, l, H, low)
    up = f(np.array([k], dtype=object) if ctx.mode == "sym" else np.array([k]), dim, l + low, H)
    lo_ = f(np.array([k], dtype=object) if ctx.mode == "sym" else np.array([k]), dim, low, H)
    pu, pl = m.pow(l + low, 2 * H), m.pow(low, 2 * H)
    ctx.ensure("S=(lup^2H S(lup)-llow^2H S(llow))/(lup^2H-llow^2H)",
               ctx.eq(got[0], (pu * up[0] - pl * lo_[0]) / (pu - pl)))


@contract(P, "tpl_models.spectral_density/rescaled-lengths-as-in-correlation",
          params=[{"cls": c, "dim": d, "low": lw} for c in ("TPLGaussian", "TPLExponential") for d in (1, 2, 3) for lw in ("zero", "positive")],
          functions=["covmodel/tpl_models.py:<cls>.spectral_density"], timeout=60)
def tpl_density(ctx, cls, dim, low):
    """the TPL spectral density is the density of the documented model whose lengths are ALL divided
    by the rescale factor (the same l_up/s, l_low/s that the documented correlation uses)"""
    m = ctx.m
    install_inc_gamma_stub()
    l, s = ctx.real("len", lo=0.5, hi=2.0), ctx.real("resc", lo=0.5, hi=2.0)
    H = ctx.real("hurst", lo=0.15, hi=0.95)
    k = ctx.real("k", lo=1.5, hi=3.0)
    ctx.require(ctx.And(ctx.gt(l, 0), ctx.gt(s, 0), ctx.gt(H, 0.1), ctx.lt(H, 1), ctx.gt(k, 0)))
    if low == "zero":
        ll = 0.0
    else:
        ll = ctx.real("len_low", lo=0.8, hi=2.0)
        ctx.require(ctx.gt(ll / s, 1e-7))
    mod = _q(getattr(gs, cls), dim=dim, len_scale=l, rescale=s, hurst=H, len_low=ll)
    fn = sp.tpl_gau_spec_dens if cls == "TPLGaussian" else sp.tpl_exp_spec_dens
    karr = np.array([k], dtype=object) if ctx.mode == "sym" else np.array([k])
    if cls == "TPLGaussian":
        for scale in ([l / s] if low == "zero" else [l / s + ll / s, ll / s]):
            ctx.require(ctx.gt((k * scale / 2) ** 2, 0.1))      # one side of the series switch
    got = mod.spectral_density(karr)
    exp = fn(karr, dim, l / s, H, ll / s)
    ctx.ensure("density=documented-density(l/s, l_low/s)", ctx.eq(got[0], exp[0]))


@contract(P, "CovModel.dim.setter/numerical-spectrum-follows-the-dimension",
          params=[{"cls": c, "dim": d, "dim2": d2} for c in ("Stable", "Spherical", "Cubic") for d in (1, 2, 3) for d2 in (1, 2, 3) if d != d2],
          functions=["covmodel/tools.py:set_dim", "covmodel/base.py:CovModel.spectral_density", "covmodel/tools.py:spectral_rad_pdf"],
          bounded="native evaluation at two wave numbers (the Hankel transform has no symbolic contract)")
def numeric_spectrum_dim(ctx, cls, dim, dim2):
    """models without an analytic density use the Hankel transform of the correlation: after a
    dimension change it must be the transform of the NEW dimension, and the radial pdf must use the
    sphere surface of the new dimension (call history: construct, use, change dim, use)"""
    with symrun.native():          # concrete models and wave numbers: evaluated natively in both modes
        mod = _q(getattr(gs, cls), dim=dim)
        k0 = np.array([0.7, 1.3])
        _q(mod.spectral_density, k0)
        _q(setattr, mod, "dim", dim2)
        fresh = _q(getattr(gs, cls), dim=dim2)
        a, b = _q(mod.spectral_density, k0), _q(fresh.spectral_density, k0)
        pa, pb = _q(mod.spectral_rad_pdf, k0), _q(fresh.spectral_rad_pdf, k0)
    ctx.ensure("hankel-dimension=model-dimension", mod._sft.ndim == mod.dim == dim2)
    ctx.ensure("density=density-of-fresh-model", bool(np.allclose(a, b, rtol=1e-9, atol=1e-12)))
    ctx.ensure("radial-pdf=radial-pdf-of-fresh-model", bool(np.allclose(pa, pb, rtol=1e-9, atol=1e-12)))


# --- analytic spectral densities = the Fourier transform of the documented correlation (tabulated pairs) ---
# Convention of the package: S(k) = (2 pi)^-d int rho(r) exp(-i k.r) d^d r.  Derivations (T8: classical
# Fourier pairs, re-derived for this file, not copied from the code):
#   Gaussian    rho = exp(-(r/l)^2)                    ->  (l / (2 sqrt(pi)))^d exp(-(k l / 2)^2)
#   Exponential rho = exp(-r/l)                        ->  l^d Gamma((d+1)/2) / (pi (1 + (k l)^2))^((d+1)/2)
#   Matern      rho = 2^(1-nu)/Gamma(nu) (a r)^nu K_nu(a r), a = sqrt(nu)/l
#                                                      ->  (l/sqrt(pi))^d Gamma(nu+d/2)/Gamma(nu) nu^(-d/2) (1 + (k l)^2/nu)^-(nu+d/2)
#   Integral    rho = nu/2 E_(1+nu/2)((r/l)^2): superposition of Gaussians exp(-t (r/l)^2), t >= 1, weight t^-(1+nu/2)
#                                                      ->  nu/2 (l/(2 sqrt(pi)))^d gamma(s, x)/x^s, s = (nu+d)/2, x = (k l/2)^2;
#                                                          k = 0: (l/(2 sqrt(pi)))^d nu/(nu+d)
#   HyperSpherical rho = self-convolution of d-balls of diameter l (normalised)
#                                                      ->  Gamma(d/2+1) J_(d/2)(k l/2)^2 / (pi^(d/2) k^d);  k = 0: (l/4)^d/(Gamma(d/2+1) pi^(d/2))
#   JBessel     rho = Gamma(nu+1) J_nu(r/l)/(r/(2l))^nu (Sonine)
#                                                      ->  (l/sqrt(pi))^d Gamma(nu+1)/Gamma(nu-d/2+1) (1-(k l)^2)^(nu-d/2) for k < 1/l, else 0
# with l = len_scale / rescale.  Matern for nu > 20 has the Gaussian-limit correlation exp(-(r/(2l))^2) (code and C03
# contract), so its density is the transform of THAT function, (l/sqrt(pi))^d exp(-(k l)^2).  Kept as stated in the code
# comments: Integral for nu > 50 (outside the default bounds of nu).  JBessel: the documented tweak at the degenerate end
# nu - (d/2 - 1) < 0.01 is outside the clause (no density exists there); everywhere else the tabulated transform is demanded.
def _G(ctx, x):
    """Gamma at a concrete argument, exact at (half-)integers in symbolic runs (as the engine does for the code)"""
    if ctx.mode == "sym":
        g = symrun._gamma_half_integer(float(x))
        if g is not None:
            return g
    import math
    return math.gamma(float(x))


def _pw(ctx, b, e):
    """b ** e for a concrete exponent the way numpy evaluates it on symbolic bases"""
    return b ** e


FT_PARAMS = [{"cls": c, "dim": d, "k": kk} for c in ("Gaussian", "Exponential", "Matern", "Integral", "HyperSpherical", "JBessel")
             for d in (1, 2, 3) for kk in ("positive", "zero")]


@contract(P, "models.spectral_density/tabulated-Fourier-pair-of-the-documented-correlation", params=FT_PARAMS,
          functions=["covmodel/models.py:<cls>.spectral_density"], timeout=60, nsamples=4, search=60)
def density_table(ctx, cls, dim, k):
    m = ctx.m
    install_inc_gamma_stub()
    l, s = ctx.real("len", lo=0.5, hi=2.0), ctx.real("resc", lo=0.5, hi=2.0)
    ctx.require(ctx.And(ctx.gt(l, 0), ctx.gt(s, 0)))
    kw = {}
    nu = None
    if cls == "Matern":
        nu = ctx.real("nu", lo=0.3, hi=29.5)
        ctx.require(ctx.And(ctx.ge(nu, 0.2), ctx.le(nu, 30.0)))
        kw["nu"] = nu
    elif cls == "Integral":
        nu = ctx.real("nu", lo=0.3, hi=49.5)
        ctx.require(ctx.And(ctx.gt(nu, 0.0), ctx.le(nu, 50.0)))
        kw["nu"] = nu
    elif cls == "JBessel":
        nu = ctx.real("nu", lo=dim / 2.0 - 1 + 0.05, hi=dim / 2.0 + 12.0)
        ctx.require(ctx.And(ctx.ge(nu, dim / 2.0 - 1), ctx.le(nu, 50.0)))
        kw["nu"] = nu
    mod = _q(getattr(gs, cls), dim=dim, len_scale=l, rescale=s, **kw)
    L = l / s
    if k == "zero":
        kv = 0.0
    else:
        kv = ctx.real("k", lo=0.05, hi=3.0)
        ctx.require(ctx.gt(kv, 1e-6))
        if cls == "JBessel":            # inside the support, away from its edge
            ctx.require(ctx.lt(kv * L, 0.999))
    karr = np.array([kv], dtype=object) if ctx.mode == "sym" else np.array([float(kv)])
    with np.errstate(all="ignore"):
        got = mod.spectral_density(karr)
    ctx.ensure("shape", ctx.shape_eq(got, (1,)))
    got = got[0]
    sqpi = m.sqrt(m.pi)
    d = dim
    if cls == "Gaussian":
        want = (L / 2.0 / sqpi) ** d * m.exp(-((kv * L / 2.0) ** 2))
    elif cls == "Exponential":
        want = L ** d * _G(ctx, (d + 1) / 2.0) / (m.pi * (1.0 + (kv * L) ** 2)) ** ((d + 1) / 2.0)
    elif cls == "Matern":
        x = (kv * L) ** 2
        exact = (L / sqpi) ** d * m.exp(-(nu + d / 2.0) * m.log(1.0 + x / nu) + m.fn("loggamma", nu + d / 2.0)
                                        - m.fn("loggamma", nu) - d * m.log(m.sqrt(nu)))
        # nu > 20: the correlation of the model is the Gaussian limit exp(-(r/(2L))^2) (C03), its transform is
        approx = (L / sqpi) ** d * m.exp(-x)
        want = m.ite(ctx.gt(nu, 20.0), approx, exact) if ctx.mode == "sym" else (approx if float(nu) > 20.0 else exact)
    elif cls == "Integral":
        fac = (0.5 * L / sqpi) ** d
        lim = fac * nu / (nu + d)
        x = (kv * L / 2) ** 2
        approx = lim * m.exp(-x) * (1 + 2 * x / (nu + d + 2))
        if k == "zero":
            exact = lim
        else:
            sh = (nu + d) / 2
            exact = 0.5 * nu * fac / m.pow(x, sh) * m.fn("inc_gamma_low", sh, x)
        want = m.ite(ctx.gt(nu, 50.0), approx, exact) if ctx.mode == "sym" else (approx if float(nu) > 50.0 else exact)
    elif cls == "HyperSpherical":
        if k == "zero":
            want = (L / 4) ** d / _G(ctx, d / 2 + 1) / sqpi ** d
        else:
            j = m.fn("jv", d / 2, kv * L / 2)
            want = _G(ctx, d / 2 + 1) / sqpi ** d * j ** 2 / kv ** d
    else:
        # the tabulated transform; at the degenerate end nu -> d/2 - 1 the spectral measure is a shell (no density):
        # there (nu - (d/2 - 1) < 0.01) the code documents a tweak, which is not part of this clause
        ctx.require(ctx.ge(nu - d / 2 + 1, 0.01))
        if ctx.mode == "sym":
            ga = m.fn("gamma", nu - d / 2 + 1)
            ctx.hint(ctx.Implies(ctx.lt(nu - d / 2 + 1, 1), ctx.le(ga, 100.0)),
                     "Gamma is decreasing on (0, 1]: Gamma(a) <= Gamma(0.01) = 99.43 < 100 for 0.01 <= a < 1 (T8)")
        want = ((L / sqpi) ** d * m.fn("gamma", nu + 1.0) / m.fn("gamma", nu - d / 2 + 1)
                * m.pow(1.0 - (kv * L) ** 2, nu - d / 2))
    ctx.ensure("density=tabulated-transform", ctx.eq(got, want))


@contract(P, "models.spectral_density/integer-wave-numbers-are-numbers",
          params={"cls": ["Gaussian", "Exponential", "Matern", "Integral", "HyperSpherical", "JBessel", "TPLGaussian",
                          "TPLExponential", "Stable"], "dim": [1, 2, 3]},
          functions=["covmodel/models.py:<cls>.spectral_density", "covmodel/base.py:CovModel.spectral_density",
                     "covmodel/base.py:CovModel.spectrum", "covmodel/base.py:CovModel.spectral_rad_pdf"],
          bounded="concrete parameters (len_scale 1.7, class defaults otherwise), wave numbers 0, 1, 2, 3 given as python "
                  "ints, int list, int64 array and float array")
def density_int_input(ctx, cls, dim):
    """`k : float` -- a wave number given as an integer is the same number (no integer arithmetic / truncation)"""
    with symrun.native():
        mod = _q(getattr(gs, cls), dim=dim, len_scale=1.7)
        ref = np.asarray(mod.spectral_density(np.array([0.0, 1.0, 2.0, 3.0])), dtype=float)
        forms = {"int-list": [0, 1, 2, 3], "int64-array": np.arange(4), "tuple": (0, 1, 2, 3)}
        ok = True
        for name, kk in forms.items():
            for fn in ("spectral_density", "spectrum", "spectral_rad_pdf"):
                want = np.asarray(getattr(mod, fn)(np.array([0.0, 1.0, 2.0, 3.0])), dtype=float)
                got = np.asarray(getattr(mod, fn)(kk), dtype=float)
                ok = ok and got.shape == want.shape and bool(np.allclose(got, want, rtol=1e-12, atol=0.0, equal_nan=True))
        one = float(np.asarray(mod.spectral_density(2)).ravel()[0])
        ok = ok and bool(np.isclose(one, ref[2], rtol=1e-12, atol=0.0))
    ctx.ensure("same-values-as-for-float-input", ok)


# --- numerical default path: the Hankel transform is set up in the package's Fourier convention -------------
HK_HIST = ["ctor-default", "ctor-partial", "ctor-convention-override", "setter-partial", "setter-none-after-partial",
           "dim-change-after-partial", "setter-twice"]


@contract(P, "CovModel.hankel_kw/transform-convention-kept-unless-overridden", params={"hist": HK_HIST, "dim": [1, 2, 3]},
          functions=["covmodel/base.py:CovModel.hankel_kw", "covmodel/base.py:CovModel.spectral_density",
                     "covmodel/base.py:CovModel.__init__", "covmodel/tools.py:set_dim"])
def hankel_convention(ctx, hist, dim):
    """S(k) = (2 pi)^-d int rho exp(-i k.r) d^d r is hankel's SymmetricFourierTransform with a = -1, b = 1
    (documented defaults {"a": -1, "b": 1, "N": 200, "h": 0.001, "alt": True}); `hankel_kw` 'modifies' these
    defaults: keys the user does not give keep their default, whatever the call history"""
    import gstools.covmodel.base as cb
    default = {"a": -1, "b": 1, "N": 200, "h": 0.001, "alt": True}
    ctx.ensure("documented-defaults", dict(cb.HANKEL_DEFAULT) == default)
    built = []

    class GhostSFT:
        def __init__(self, ndim=2, **kw):
            self.ndim, self.kw = ndim, dict(kw)
            self.calls = []
            built.append(self)

        def transform(self, f, k, ret_err=True, **kw):
            self.calls.append((f, k, ret_err, kw))
            return ("transform-of", id(f)) if False else np.asarray(k, dtype=object if ctx.mode == "sym" else float) * 0 + 1

    l = ctx.real("len", lo=0.5, hi=2.0)
    ctx.require(ctx.gt(l, 0))
    real, real_t = cb.SFT, ctools.SFT
    cb.SFT = ctools.SFT = GhostSFT
    try:
        user, mod = {}, None
        if hist == "ctor-default":
            mod = _q(gs.Stable, dim=dim, len_scale=l)
        elif hist == "ctor-partial":
            user = {"N": 300}
            mod = _q(gs.Stable, dim=dim, len_scale=l, hankel_kw={"N": 300})
        elif hist == "ctor-convention-override":
            user = {"a": 0, "b": 2}
            mod = _q(gs.Stable, dim=dim, len_scale=l, hankel_kw={"a": 0, "b": 2})
        elif hist == "setter-partial":
            user = {"h": 0.01}
            mod = _q(gs.Stable, dim=dim, len_scale=l)
            mod.hankel_kw = {"h": 0.01}
        elif hist == "setter-none-after-partial":
            mod = _q(gs.Stable, dim=dim, len_scale=l, hankel_kw={"N": 300, "a": 0})
            mod.hankel_kw = None
        elif hist == "dim-change-after-partial":
            user = {"N": 300}
            mod = _q(gs.Stable, dim=dim, len_scale=l, hankel_kw={"N": 300})
            mod.dim = dim % 3 + 1
        else:
            user = {"N": 300, "h": 0.01}
            mod = _q(gs.Stable, dim=dim, len_scale=l, hankel_kw={"N": 300})
            mod.hankel_kw = {"h": 0.01}
        want = dict(default, **user)
        ctx.ensure("hankel_kw=defaults-updated-with-the-user's-keys", dict(mod.hankel_kw) == want)
        ctx.ensure("transform-object=SFT(ndim=dim,**hankel_kw)",
                   isinstance(mod._sft, GhostSFT) and mod._sft is built[-1] and mod._sft.ndim == mod.dim
                   and mod._sft.kw == want)
        ctx.ensure("module-defaults-not-modified", dict(cb.HANKEL_DEFAULT) == default)
        k = ctx.real("k", lo=-2.0, hi=2.0)
        out = mod.spectral_density(np.array([k], dtype=object) if ctx.mode == "sym" else np.array([float(k)]))
        c = mod._sft.calls
        ctx.ensure("density=transform(correlation,|k|)",
                   len(c) == 1 and c[0][0] == mod.correlation and c[0][2] is False and not c[0][3]
                   and ctx.And(ctx.shape_eq(c[0][1], (1,)), ctx.eq(c[0][1][0], ctx.m.abs(k))))
    finally:
        cb.SFT, ctools.SFT = real, real_t


# the Integral / TPL densities use tools.special.inc_gamma_low: its dispatch and values (bounded, mpmath)
from contracts import special_fn  # noqa: E402
special_fn.register(P)



@contract(P, "models.spectral_rad_ppf/finite-inverse-up-to-the-end-of-the-unit-interval",
          params=[{"cls": c, "dim": d} for c in ("Gaussian", "Exponential") for d in (1, 2)],
          functions=["covmodel/models.py:<cls>.spectral_rad_ppf", "covmodel/models.py:<cls>.spectral_rad_cdf"],
          bounded="native run: u = 1 - 10^-k, k = 2 .. 15, and 0; tolerance 1e-12 (1e-9 relative in 1 - u)")
def ppf_end(ctx, cls, dim):
    """the generators draw u uniformly from [0, 1) and use ppf(u) as wave number: it has to be finite there and the
    inverse of the cdf also close to 1 (a guard against u = 1 must not swallow a neighbourhood of it)"""
    ok = True
    with symrun.native():
        mod = getattr(gs, cls)(dim=dim, len_scale=1.7)
        for k in range(2, 16):
            u = 1.0 - 10.0 ** (-k)
            q = float(np.asarray(mod.spectral_rad_ppf(np.array([u]))).ravel()[0])
            back = float(np.asarray(mod.spectral_rad_cdf(np.array([q]))).ravel()[0]) if np.isfinite(q) else np.nan
            if not (np.isfinite(q) and abs((1.0 - back) - (1.0 - u)) <= 1e-12 + 1e-9 * (1.0 - u)):
                ok = False
                if ctx.mode == "conc":
                    ctx.results.setdefault("first-deviation", repr((u, q, back)))
        q0 = float(np.asarray(mod.spectral_rad_ppf(np.array([0.0]))).ravel()[0])
        ok = ok and q0 == 0.0
    ctx.ensure("ppf-finite;cdf(ppf(u))=u-near-1;ppf(0)=0", ok)
