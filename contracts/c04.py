r"""C04 (decided part) -- algebraic relations of the spectral representation.

Decided: spectrum = var * spectral_density; spectral_rad_pdf = (surface of the (d-1)-sphere of
radius r) * |density(r)| with the documented zero at r ~ 0 for d > 1 and pdf >= 0; rad_fac equals
the sphere surfaces 2, 2 pi r, 4 pi r^2, 2 pi^2 r^3; for Gaussian and Exponential (all dims offered)
d/dr spectral_rad_cdf = spectral_rad_pdf (mechanical differentiation, T4 table), cdf(0) = 0,
ppf(cdf(r)) = r and cdf(ppf(u)) = u, and _has_cdf/_has_ppf agree with the dims for which a value is
returned; the truncated-power-law densities are the documented superposition of their single-scale
densities.
NOT decided (residue): that the reported density IS the d-dimensional Fourier transform of the
correlation (improper integrals of special functions; default path is a numerical Hankel
transform without contract); cdf(inf) = 1.
"""
import warnings

import numpy as np
import z3

import gstools as gs
from gsvc.contract import contract
from gsvc import symrun
from contracts import gen_common as gc
from contracts import axioms as ax
from contracts.calculus import D
from contracts.c11 import _q
from gstools.covmodel import tools as ctools
from gstools.tools import special as sp

P = "C04"


def _gen_model(ctx, dim):
    U = gc.generic_model_class(ctx)
    v, l, s = ctx.real("var", pos=True), ctx.real("len", pos=True), ctx.real("resc", pos=True)
    n = ctx.real("nug", nonneg=True)
    ctx.require(ctx.And(ctx.gt(v, 0), ctx.gt(l, 0), ctx.gt(s, 0), ctx.ge(n, 0)))
    return _q(U, dim=dim, var=v, len_scale=l, rescale=s, nugget=n), v


@contract(P, "CovModel.spectrum/var-times-density", params={"dim": [1, 2, 3]},
          functions=["covmodel/base.py:CovModel.spectrum", "covmodel/base.py:CovModel.spectral_rad_pdf",
                     "covmodel/tools.py:spectral_rad_pdf", "covmodel/tools.py:rad_fac",
                     "covmodel/base.py:CovModel.ln_spectral_rad_pdf"])
def spectrum(ctx, dim):
    m = ctx.m
    mod, v = _gen_model(ctx, dim)
    k = ctx.real("k", nonneg=True)
    ctx.require(ctx.ge(k, 0))
    dens = mod.spectral_density(k)
    ctx.ensure("spectrum=var*density", ctx.eq(mod.spectrum(k), v * dens))
    surf = {1: 2, 2: 2 * m.pi * k, 3: 4 * m.pi * k * k}[dim]
    pdf = mod.spectral_rad_pdf([k])[0]
    zero = ctx.le(k, 1e-8)
    if dim > 1:
        ctx.ensure("pdf=surface*|density|", ctx.And(
            ctx.Implies(zero, ctx.eq(pdf, 0)),
            ctx.Implies(ctx.Not(zero), ctx.eq(pdf, surf * m.abs(dens)))))
    else:
        ctx.ensure("pdf=surface*|density|", ctx.eq(pdf, surf * m.abs(dens)))
    ctx.ensure("pdf>=0", ctx.ge(pdf, 0))
    ctx.require(ctx.gt(pdf, 0))
    ctx.ensure("ln_pdf=log(pdf)", ctx.eq(mod.ln_spectral_rad_pdf([k])[0], m.log(pdf)))


@contract(P, "covmodel.tools.rad_fac/sphere-surface", params={"dim": [1, 2, 3, 4]},
          functions=["covmodel/tools.py:rad_fac"])
def rad_fac(ctx, dim):
    m = ctx.m
    r = ctx.real("r", pos=True)
    ctx.require(ctx.gt(r, 0))
    surf = {1: 2, 2: 2 * m.pi * r, 3: 4 * m.pi * r * r, 4: 2 * m.pi * m.pi * r * r * r}[dim]
    L = ctx.lemma("sqrt(pi)^2=pi", ctx.eq(m.sqrt(m.pi) * m.sqrt(m.pi), m.pi))
    ctx.ensure("surface-of-(d-1)-sphere", ctx.eq(ctools.rad_fac(dim, r), surf), using=[L])


def _shipped(ctx, cls, dim):
    l, s = ctx.real("len", pos=True), ctx.real("resc", pos=True)
    ctx.require(ctx.And(ctx.gt(l, 0), ctx.gt(s, 0)))
    return _q(getattr(gs, cls), dim=dim, len_scale=l, rescale=s)


@contract(P, "models.spectral_rad_cdf/derivative-is-pdf",
          params=[{"cls": c, "dim": d} for c in ("Gaussian", "Exponential") for d in (1, 2, 3)],
          functions=["covmodel/models.py:<cls>.spectral_rad_cdf", "covmodel/models.py:<cls>.spectral_density",
                     "covmodel/models.py:<cls>._has_cdf"], timeout=60)
def cdf_derivative(ctx, cls, dim):
    m = ctx.m
    mod = _shipped(ctx, cls, dim)
    ctx.ensure("has_cdf", mod.has_cdf is True)
    r = ctx.real("r", lo=0.05, hi=3.0)
    ctx.require(ctx.gt(r, 1e-6))
    pdf = mod.spectral_rad_pdf([r])[0]
    if ctx.mode == "sym":
        cdf = mod.spectral_rad_cdf(r)
        cdf = cdf.item() if isinstance(cdf, np.ndarray) else cdf
        dcdf = symrun.from_term(D(symrun.lift(cdf), r.t))
        hs = [ctx.lemma("sqrt(pi)^2=pi", ctx.eq(m.sqrt(m.pi) * m.sqrt(m.pi), m.pi)),
              ctx.lemma("sqrt(pi)>0", ctx.gt(m.sqrt(m.pi), 0))]
        if cls == "Exponential":
            x = 1 + (r * mod.len_rescaled) ** 2
            if dim == 2:
                hs += [ctx.lemma("sqrt(x)^2=x", ctx.And(ctx.eq(m.sqrt(x) * m.sqrt(x), x), ctx.gt(m.sqrt(x), 0)))]
                # (pi x)^(3/2) = pi x sqrt(pi x), sqrt(pi x) = sqrt(pi) sqrt(x)
                hs += [ctx.hint(ctx.eq(m.pow(m.pi * x, 1.5), m.pi * x * m.sqrt(m.pi * x)), "y^(3/2)=y sqrt y, y>0"),
                       ctx.hint(ctx.eq(m.sqrt(m.pi * x), m.sqrt(m.pi) * m.sqrt(x)), "sqrt(ab)=sqrt a sqrt b")]
        ctx.ensure("d/dr cdf = pdf", ctx.eq(dcdf, pdf))
    else:
        h = 1e-6
        num = (float(mod.spectral_rad_cdf(r + h)) - float(mod.spectral_rad_cdf(r - h))) / (2 * h)
        ctx.ensure("d/dr cdf = pdf", abs(num - float(pdf)) <= 1e-5 * (1 + abs(float(pdf))))
    c0 = mod.spectral_rad_cdf(0.0)
    ctx.ensure("cdf(0)=0", ctx.eq(c0, 0))


@contract(P, "models.spectral_rad_ppf/inverse-of-cdf",
          params=[{"cls": c, "dim": d} for c in ("Gaussian", "Exponential") for d in (1, 2)],
          functions=["covmodel/models.py:<cls>.spectral_rad_ppf", "covmodel/models.py:<cls>.spectral_rad_cdf",
                     "covmodel/models.py:<cls>._has_ppf"], timeout=60)
def ppf_inverse(ctx, cls, dim):
    m = ctx.m
    mod = _shipped(ctx, cls, dim)
    ctx.ensure("has_ppf", mod.has_ppf is True)
    u = ctx.real("u", lo=0.05, hi=0.95)
    ctx.require(ctx.And(ctx.gt(u, 1e-6), ctx.lt(u, 1)))
    r = ctx.real("r", lo=0.05, hi=3.0)
    ctx.require(ctx.gt(r, 0))
    q = mod.spectral_rad_ppf(u)
    q = q.item() if isinstance(q, np.ndarray) else q
    ctx.ensure("ppf>=0", ctx.ge(q, 0))
    back = mod.spectral_rad_cdf(q)
    back = back.item() if isinstance(back, np.ndarray) else back
    ctx.ensure("cdf(ppf(u))=u", ctx.eq(back, u))
    c = mod.spectral_rad_cdf(r)
    c = c.item() if isinstance(c, np.ndarray) else c
    ctx.ensure("cdf-in-[0,1)", ctx.And(ctx.ge(c, 0), ctx.lt(c, 1)))
    rr = mod.spectral_rad_ppf(c)
    rr = rr.item() if isinstance(rr, np.ndarray) else rr
    ctx.ensure("ppf(cdf(r))=r", ctx.eq(rr, r))


@contract(P, "models._has_cdf/agrees-with-returned-values", params={"cls": ["Gaussian", "Exponential"], "dim": [1, 2, 3, 4]},
          functions=["covmodel/models.py:<cls>._has_cdf", "covmodel/models.py:<cls>._has_ppf"])
def has_flags(ctx, cls, dim):
    mod = _q(getattr(gs, cls), dim=dim)
    ctx.ensure("has_cdf<=>cdf-defined", mod.has_cdf == (mod.spectral_rad_cdf(0.5) is not None))
    ctx.ensure("has_ppf<=>ppf-defined", mod.has_ppf == (mod.spectral_rad_ppf(0.5) is not None))
    pdf, cdf, ppf = mod.dist_func
    ctx.ensure("dist_func", (cdf is None) == (not mod.has_cdf) and (ppf is None) == (not mod.has_ppf))


_REAL_IGL = None


def install_inc_gamma_stub():
    """tools.special.inc_gamma_low -> its contract: the lower incomplete gamma function
    gamma(s, x) (uninterpreted) for symbolic arguments"""
    global _REAL_IGL
    if _REAL_IGL is not None:
        return
    _REAL_IGL = sp.inc_gamma_low

    def inc_gamma_low(s, x):
        if symrun.symbolic_active() and (symrun.is_sym(s) or symrun.is_sym(x)):
            return symrun._elementwise(lambda a, b: symrun.uf("inc_gamma_low", a, b), s, x)
        return _REAL_IGL(s, x)
    sp.inc_gamma_low = inc_gamma_low
    import gstools.covmodel.models as mods
    if hasattr(mods, "inc_gamma_low"):
        mods.inc_gamma_low = inc_gamma_low
    symrun.CONC_FUNCS["inc_gamma_low"] = lambda s, x: float(np.asarray(_REAL_IGL(s, np.array([x], dtype=float)))[0])
    symrun.SHIM_LOG.append("gstools.tools.special.inc_gamma_low -> contract gamma(s,x) (uninterpreted) for symbolic arguments")


@contract(P, "special.tpl_spec_dens/documented-superposition", params={"fn": ["tpl_exp_spec_dens", "tpl_gau_spec_dens"], "dim": [1, 2, 3]},
          functions=["tools/special.py:tpl_exp_spec_dens", "tools/special.py:tpl_gau_spec_dens"], timeout=60)
def tpl_superposition(ctx, fn, dim):
    m = ctx.m
    install_inc_gamma_stub()
    f = getattr(sp, fn)
    k = ctx.real("k", lo=0.7, hi=3.0)
    l, low = ctx.real("len", lo=0.5, hi=2.0), ctx.real("low", lo=0.3, hi=2.0)
    H = ctx.real("hurst", lo=0.15, hi=0.95)
    ctx.require(ctx.And(ctx.gt(k, 0), ctx.gt(l, 0), ctx.gt(low, 1e-7), ctx.gt(H, 0.1), ctx.lt(H, 1)))
    if fn == "tpl_gau_spec_dens":
        # stay on one side of the code's series switch z = (k l / 2)^2 > 0.1 for all three scales
        ctx.require(ctx.And(ctx.gt((k * low / 2) ** 2, 0.1), ctx.gt((k * l / 2) ** 2, 0.1)))
    got = f(np.array([k], dtype=object) if ctx.mode == "sym" else np.array([k]), dim, l, H, low)
    up = f(np.array([k], dtype=object) if ctx.mode == "sym" else np.array([k]), dim, l + low, H)
    lo_ = f(np.array([k], dtype=object) if ctx.mode == "sym" else np.array([k]), dim, low, H)
    pu, pl = m.pow(l + low, 2 * H), m.pow(low, 2 * H)
    ctx.ensure("S=(lup^2H S(lup)-llow^2H S(llow))/(lup^2H-llow^2H)",
               ctx.eq(got[0], (pu * up[0] - pl * lo_[0]) / (pu - pl)))


@contract(P, "tpl_models.spectral_density/rescaled-lengths-as-in-correlation",
          params=[{"cls": c, "dim": d, "low": lw} for c in ("TPLGaussian", "TPLExponential") for d in (1, 2, 3) for lw in ("zero", "positive")],
          functions=["covmodel/tpl_models.py:<cls>.spectral_density"], timeout=60)
def tpl_density(ctx, cls, dim, low):
    """the TPL spectral density is the density of the documented model whose lengths are ALL divided
    by the rescale factor (the same l_up/s, l_low/s that the documented correlation uses)"""
    m = ctx.m
    install_inc_gamma_stub()
    l, s = ctx.real("len", lo=0.5, hi=2.0), ctx.real("resc", lo=0.5, hi=2.0)
    H = ctx.real("hurst", lo=0.15, hi=0.95)
    k = ctx.real("k", lo=1.5, hi=3.0)
    ctx.require(ctx.And(ctx.gt(l, 0), ctx.gt(s, 0), ctx.gt(H, 0.1), ctx.lt(H, 1), ctx.gt(k, 0)))
    if low == "zero":
        ll = 0.0
    else:
        ll = ctx.real("len_low", lo=0.8, hi=2.0)
        ctx.require(ctx.gt(ll / s, 1e-7))
    mod = _q(getattr(gs, cls), dim=dim, len_scale=l, rescale=s, hurst=H, len_low=ll)
    fn = sp.tpl_gau_spec_dens if cls == "TPLGaussian" else sp.tpl_exp_spec_dens
    karr = np.array([k], dtype=object) if ctx.mode == "sym" else np.array([k])
    if cls == "TPLGaussian":
        for scale in ([l / s] if low == "zero" else [l / s + ll / s, ll / s]):
            ctx.require(ctx.gt((k * scale / 2) ** 2, 0.1))      # one side of the series switch
    got = mod.spectral_density(karr)
    exp = fn(karr, dim, l / s, H, ll / s)
    ctx.ensure("density=documented-density(l/s, l_low/s)", ctx.eq(got[0], exp[0]))


@contract(P, "CovModel.dim.setter/numerical-spectrum-follows-the-dimension",
          params=[{"cls": c, "dim": d, "dim2": d2} for c in ("Stable", "Spherical", "Cubic") for d in (1, 2, 3) for d2 in (1, 2, 3) if d != d2],
          functions=["covmodel/tools.py:set_dim", "covmodel/base.py:CovModel.spectral_density", "covmodel/tools.py:spectral_rad_pdf"],
          bounded="native evaluation at two wave numbers (the Hankel transform has no symbolic contract)")
def numeric_spectrum_dim(ctx, cls, dim, dim2):
    """models without an analytic density use the Hankel transform of the correlation: after a
    dimension change it must be the transform of the NEW dimension, and the radial pdf must use the
    sphere surface of the new dimension (call history: construct, use, change dim, use)"""
    with symrun.native():          # concrete models and wave numbers: evaluated natively in both modes
        mod = _q(getattr(gs, cls), dim=dim)
        k0 = np.array([0.7, 1.3])
        _q(mod.spectral_density, k0)
        _q(setattr, mod, "dim", dim2)
        fresh = _q(getattr(gs, cls), dim=dim2)
        a, b = _q(mod.spectral_density, k0), _q(fresh.spectral_density, k0)
        pa, pb = _q(mod.spectral_rad_pdf, k0), _q(fresh.spectral_rad_pdf, k0)
    ctx.ensure("hankel-dimension=model-dimension", mod._sft.ndim == mod.dim == dim2)
    ctx.ensure("density=density-of-fresh-model", bool(np.allclose(a, b, rtol=1e-9, atol=1e-12)))
    ctx.ensure("radial-pdf=radial-pdf-of-fresh-model", bool(np.allclose(pa, pb, rtol=1e-9, atol=1e-12)))
