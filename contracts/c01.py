r"""C01 (decided part) -- second-order structure of the generators conditional on the drawn wave
vectors.

The generated field is linear in the iid standard-normal amplitudes z (coefficients c_i(x)
extracted from the REAL output term by mechanical differentiation), hence over the amplitudes
  E field(x) = 0,   Var field(x) = sum_i c_i(x)^2,   Cov(field(x), field(y)) = sum_i c_i(x) c_i(y).
Obligations: Var = var (exactly, for every x and every set of wave vectors) for RandMeth,
Cov = var/N sum_j cos(k_j.(x - y)); for Fourier Var = sum_j S(|k_j|) prod(delta_k) (the Riemann sum
of the spectrum: discretisation-error form); nugget noise adds nugget to the variance; the sphere
sampler returns unit vectors (|k_j| = radius_j); the radius sampler is handed exactly the model's
spectral_rad_pdf / cdf / ppf resp. ln_spectral_rad_pdf; positions reach the generator only
through model.isometrize.
NOT decided here (residue, see MANIFEST): that sampled radii follow the pdf, Bochner (E_k cos(k.h) =
C(h)/var), Monte-Carlo rate, anything over seeds.
"""
import numpy as np
import z3

import gstools as gs
from gsvc.contract import contract
from gsvc import symrun
from contracts import gen_common as gc
from contracts import axioms as ax
from contracts.calculus import D
from contracts.c11 import sym_model, sym_fourier, _q
from gstools.field.generator import RandMeth, Fourier

P = "C01"
gc.install()


def _coeffs(out, zs):
    t = symrun.lift(out)
    return [symrun.from_term(D(t, symrun.lift(z))) for z in zs]


@contract(P, "RandMeth.__call__/amplitude-moments", params=[{"dim": d, "N": n} for d in (1, 2, 3) for n in (1, 2)],
          functions=["field/generator.py:RandMeth.__call__", "field/generator.py:RandMeth.reset_seed",
                     "field/generator.py:_summate"], timeout=60, nsamples=1, search=10)
def randmeth_moments(ctx, dim, N):
    m = ctx.m
    mod = sym_model(ctx, dim, aniso=False, nugget=False)
    s = ctx.integer("seed", lo=1, hi=1000)
    g = _q(RandMeth, mod, mode_no=N, seed=s)
    x, y = ctx.reals("x", dim), ctx.reals("y", dim)
    pos = np.array([[a, b] for a, b in zip(x, y)], dtype=object)
    k = g._cov_sample
    if ctx.mode == "conc":
        # native replay of the same claims: coefficients = response to unit amplitude vectors
        pos = pos.astype(float)
        full = g(pos, add_nugget=False)
        z1, z2 = g._z_1.copy(), g._z_2.copy()
        cx, cy = [], []
        for part in (0, 1):
            for i in range(N):
                e = np.zeros(N)
                e[i] = 1.0
                g._z_1, g._z_2 = (e, np.zeros(N)) if part == 0 else (np.zeros(N), e)
                r = g(pos, add_nugget=False)
                cx.append(r[0])
                cy.append(r[1])
        g._z_1, g._z_2 = np.zeros(N), np.zeros(N)
        ctx.ensure("mean=0", ctx.eq(g(pos, add_nugget=False), np.zeros(2)))
        g._z_1, g._z_2 = z1, z2
        zs = list(z1) + list(z2)
        ctx.ensure("linear-in-amplitudes", ctx.eq(full[0], sum(c * z for c, z in zip(cx, zs))))
        ctx.ensure("variance=var", ctx.eq(sum(c * c for c in cx), mod.var))
        spec = sum(np.cos(sum(k[d, j] * (x[d] - y[d]) for d in range(dim))) for j in range(N))
        ctx.ensure("covariance=var/N*sum_j cos(k_j.(x-y))", ctx.eq(sum(a * b for a, b in zip(cx, cy)), mod.var / N * spec))
        return
    out = g(pos, add_nugget=False)
    zs = list(g._z_1) + list(g._z_2)
    cx, cy = _coeffs(out[0], zs), _coeffs(out[1], zs)
    zero = [(symrun.lift(z), z3.RealVal(0)) for z in zs]
    ctx.ensure("mean=0", ctx.eq(symrun.SymReal(z3.substitute(symrun.lift(out[0]), *zero)), 0))
    ctx.ensure("linear-in-amplitudes", ctx.eq(out[0], sum(c * z for c, z in zip(cx, zs))))
    L = ctx.lemma("sqrt(var/N)^2=var/N", ctx.eq(m.sqrt(mod.var / N) * m.sqrt(mod.var / N), mod.var / N))
    ctx.ensure("variance=var", ctx.eq(sum(c * c for c in cx), mod.var), using=[L])
    hints = [L]
    spec = 0
    for j in range(N):
        px = sum(k[d, j] * x[d] for d in range(dim))
        py = sum(k[d, j] * y[d] for d in range(dim))
        hints.append(ax.cos_diff(ctx, px, py))
        hints.append(ctx.lemma("phase-difference[mode%d]" % j,
                               ctx.eq(px - py, sum(k[d, j] * (x[d] - y[d]) for d in range(dim)))))
        spec = spec + m.cos(px - py)
    ctx.ensure("covariance=var/N*sum_j cos(k_j.(x-y))",
               ctx.eq(sum(a * b for a, b in zip(cx, cy)), mod.var / N * spec), using=hints)


@contract(P, "RandMeth.get_nugget/adds-nugget-variance", params={"dim": [1, 2]},
          functions=["field/generator.py:RandMeth.get_nugget"], nsamples=1, search=10)
def nugget_noise(ctx, dim):
    m = ctx.m
    mod = sym_model(ctx, dim, aniso=False, nugget=True)
    ctx.require(ctx.gt(mod.nugget, 0))
    s = ctx.integer("seed", lo=1, hi=1000)
    g = _q(RandMeth, mod, mode_no=1, seed=s)
    if ctx.mode == "conc":
        return
    noise = g.get_nugget((2,))
    xi = [symrun.SymReal(symrun.lift(n) / symrun.lift(m.sqrt(mod.nugget))) for n in noise]
    # sqrt(nugget) times two DISTINCT fresh standard-normal draws of the generator's stream
    ctx.ensure("noise=sqrt(nugget)*draw", ctx.And(*[ctx.eq(n, m.sqrt(mod.nugget) * symrun.SymReal(d))
                                                   for n, d in zip(noise, _draw_atoms(noise))]))
    L = ctx.lemma("sqrt(nugget)^2=nugget", ctx.eq(m.sqrt(mod.nugget) * m.sqrt(mod.nugget), mod.nugget))
    c = symrun.from_term(D(symrun.lift(noise[0]), _draw_atoms(noise)[0]))
    ctx.ensure("noise-variance=nugget", ctx.eq(c * c, mod.nugget), using=[L])
    ctx.ensure("independent-of-other-points",
               ctx.eq(symrun.from_term(D(symrun.lift(noise[0]), _draw_atoms(noise)[1])), 0))


def _draw_atoms(noise):
    out = []
    for n in noise:
        t = symrun.lift(n)
        found = []

        def walk(u):
            if z3.is_app(u) and u.decl().name() == "rng_normal":
                found.append(u)
                return
            for ch in u.children():
                walk(ch)
        walk(t)
        out.append(found[0])
    return out


@contract(P, "RNG.sample_sphere/unit-vectors", params={"dim": [1, 2, 3]},
          functions=["random/rng.py:RNG.sample_sphere"], nsamples=2)
def sphere(ctx, dim):
    if ctx.mode == "conc":
        from gstools.random.rng import RNG
        c = RNG(ctx.integer("seed")).sample_sphere(dim, 2)
        ctx.ensure("shape", ctx.shape_eq(c, (dim, 2)))
        for i in range(2):
            ctx.ensure("unit-length[%d]" % i, ctx.eq(float(np.sum(c[:, i] * c[:, i])), 1))
        return
    s = ctx.integer("seed")
    c = gc.GhostRNG(s).sample_sphere(dim, 2)
    ctx.ensure("shape", ctx.shape_eq(c, (dim, 2)))
    for i in range(2):
        ctx.ensure("unit-length[%d]" % i, ctx.eq(sum(c[d, i] * c[d, i] for d in range(dim)), 1))


@contract(P, "RandMeth.reset_seed/radius-sampler-gets-model-spectral-law",
          params=[{"cls": "Gaussian", "dim": 1, "sampling": "auto"}, {"cls": "Gaussian", "dim": 2, "sampling": "inversion"},
                  {"cls": "Gaussian", "dim": 3, "sampling": "auto"}, {"cls": "Exponential", "dim": 3, "sampling": "mcmc"},
                  {"cls": "Stable", "dim": 2, "sampling": "auto"}, {"cls": "Exponential", "dim": 2, "sampling": "auto"}],
          functions=["field/generator.py:RandMeth.reset_seed"], nsamples=1)
def sampler_dataflow(ctx, cls, dim, sampling):
    l = ctx.real("len", pos=True)
    ctx.require(ctx.gt(l, 0))
    mod = _q(getattr(gs, cls), dim=dim, len_scale=l)
    gc.GhostRNG.SAMPLED.clear()
    s = ctx.integer("seed")
    if ctx.mode == "conc":
        # native: the real RNG with recording radius samplers
        import gstools.field.generator as G
        real = gc.REAL["RNG"]

        class Rec(real):
            def sample_dist(self, pdf=None, cdf=None, ppf=None, size=None, **kw):
                gc.GhostRNG.SAMPLED.append(("dist", pdf, cdf, ppf, dict(kw)))
                return real.sample_dist(self, pdf=pdf, cdf=cdf, ppf=ppf, size=size, **kw)

            def sample_ln_pdf(self, ln_pdf, size=None, sample_around=1.0, **kw):
                gc.GhostRNG.SAMPLED.append(("ln_pdf", ln_pdf, sample_around))
                return real.sample_ln_pdf(self, ln_pdf, size=size, sample_around=sample_around, **kw)
        old = G.RNG
        G.RNG = Rec
        try:
            g = _q(RandMeth, mod, mode_no=2, seed=s, sampling=sampling)
        finally:
            G.RNG = old
    else:
        g = _q(RandMeth, mod, mode_no=2, seed=s, sampling=sampling)
    rec = gc.GhostRNG.SAMPLED[-1]
    gm = g.model
    use_ppf = sampling == "inversion" or (sampling == "auto" and gm.has_ppf)
    if use_ppf:
        ok = rec[0] == "dist" and rec[1] == gm.spectral_rad_pdf and \
            (rec[2] == gm.spectral_rad_cdf if gm.has_cdf else rec[2] is None) and \
            (rec[3] == gm.spectral_rad_ppf if gm.has_ppf else rec[3] is None) and rec[4].get("a") == 0
    else:
        ok = rec[0] == "ln_pdf" and rec[1] == gm.ln_spectral_rad_pdf
    ctx.ensure("sampler-receives-the-model's-own-functions", ok)
    ctx.ensure("private-copy-equals-model", ctx.And(ctx.eq(gm.len_scale, l), gm.dim == dim, type(gm) is type(mod)))
    if not use_ppf:
        ctx.ensure("mcmc-start-scale=1/len_rescaled", ctx.eq(rec[2] * gm.len_rescaled, 1))
    if ctx.mode == "conc":
        return
    # wave vectors = radius * unit vector
    k = g._cov_sample
    for j in range(2):
        r2 = sum(k[d, j] * k[d, j] for d in range(dim))
        ctx.ensure("|k_%d|=radius" % j, ctx.eq(r2, _rad(k, j, dim) ** 2))


def _rad(k, j, dim):
    found = []

    def walk(u):
        if z3.is_app(u) and u.decl().name().startswith("rng_rad"):
            found.append(u)
            return
        for ch in u.children():
            walk(ch)
    walk(symrun.lift(k[0, j]))
    return symrun.SymReal(found[0])


@contract(P, "Fourier.__call__/variance-is-riemann-sum-of-spectrum", params={"dim": [1, 2]},
          functions=["field/generator.py:Fourier.__call__", "field/generator.py:Fourier.reset_seed"],
          timeout=60, nsamples=1, search=10)
def fourier_moments(ctx, dim):
    m = ctx.m
    mod, s, per, g = sym_fourier(ctx, dim)
    x = ctx.reals("x", dim)
    if ctx.mode == "conc":
        pos = np.array([[a] for a in x], dtype=float)
        n = len(g._z_1)
        sf = g._spectrum_factor
        cs = []
        for part in (0, 1):
            for i in range(n):
                e = np.zeros(n)
                e[i] = 1.0
                g._z_1, g._z_2 = (e, np.zeros(n)) if part == 0 else (np.zeros(n), e)
                cs.append(g(pos, add_nugget=False)[0])
        ctx.ensure("variance=sum_j spectrum_factor_j^2", ctx.eq(sum(c * c for c in cs), float(np.sum(sf * sf))))
        dk = float(np.prod(g._delta_k))
        for j in range(g._modes.shape[1]):
            kn = float(np.linalg.norm(g._modes[:, j]))
            ctx.ensure("spectrum_factor[%d]^2=S(|k|)*prod(delta_k)" % j, ctx.eq(sf[j] * sf[j], float(mod.spectrum(kn)) * dk))
        return
    pos = np.array([[a] for a in x], dtype=object)
    out = g(pos, add_nugget=False)
    zs = list(g._z_1) + list(g._z_2)
    cx = _coeffs(out[0], zs)
    zero = [(symrun.lift(z), z3.RealVal(0)) for z in zs]
    ctx.ensure("mean=0", ctx.eq(symrun.SymReal(z3.substitute(symrun.lift(out[0]), *zero)), 0))
    sf = g._spectrum_factor
    ctx.ensure("variance=sum_j spectrum_factor_j^2", ctx.eq(sum(c * c for c in cx), sum(f * f for f in sf)))
    dk = 1
    for d in range(dim):
        dk = dk * g._delta_k[d]
    modes = g._modes
    for j in range(modes.shape[1]):
        kn = m.sqrt(sum(modes[d, j] * modes[d, j] for d in range(dim)))
        S = mod.spectrum(kn)
        ctx.require(ctx.ge(S * dk, 0))     # spectral density non-negative (C02)
        ctx.ensure("spectrum_factor[%d]^2=S(|k|)*prod(delta_k)" % j, ctx.eq(sf[j] * sf[j], S * dk))


@contract(P, "SRF.__call__/positions-enter-only-isometrised", params={"dim": [2]},
          functions=["field/srf.py:SRF.__call__", "field/base.py:Field.pre_pos"], nsamples=1, search=10)
def srf_iso(ctx, dim):
    mod = sym_model(ctx, dim, nugget=False)
    s = ctx.integer("seed", lo=1, hi=1000)
    srf = _q(gs.SRF, mod, seed=s, mode_no=2)
    x = ctx.reals("x", dim)
    pos = np.array([[a] for a in x], dtype=object)
    if ctx.mode == "conc":
        pos = pos.astype(float)
    got = srf(pos, store=False)
    direct = srf.generator(mod.isometrize(pos), add_nugget=False)
    ctx.ensure("field(x)=generator(isometrize(x))", ctx.eq(got, direct))


# --- variance upscaling (`point_volumes`): the generated field is rescaled to the upscaled variance ------------
@contract(P, "SRF.__call__[point_volumes]/field-rescaled-to-the-upscaled-variance",
          params=[{"up": u, "nug": n, "dim": d} for u in ("no_scaling", "coarse_graining") for n in ("zero", "pos") for d in (1, 2)
                  if not (u == "coarse_graining" and n == "pos")],
          functions=["field/srf.py:SRF.__call__", "field/upscaling.py:var_coarse_graining", "field/upscaling.py:var_no_scaling"],
          nsamples=1, search=10, timeout=60)
def srf_upscaling(ctx, up, nug, dim):
    """the raw field (incl. nugget noise) has pointwise variance sill = var + nugget; with `point_volumes` it is
    multiplied by sqrt(scaled_var / sill): unchanged for 'no_scaling' (scaled_var = sill), variance
    sill * (l^2 / (l^2 + (V^(1/d)/2)^2))^(d/2) for 'coarse_graining' (documented formula)"""
    m = ctx.m
    mod = sym_model(ctx, dim, nugget=(nug == "pos"), aniso=False)
    if nug == "pos":
        ctx.require(ctx.gt(mod.nugget, 0))
    s = ctx.integer("seed", lo=1, hi=1000)
    x = [[0.25, 1.5]] * dim
    V = ctx.real("volume", lo=0.2, hi=3.0)
    ctx.require(ctx.gt(V, 1e-4))
    base = _q(gs.SRF, mod, seed=s, mode_no=2)(x)
    got = _q(gs.SRF, mod, seed=s, mode_no=2, upscaling=up)(x, point_volumes=V)
    ctx.ensure("shape", ctx.shape_eq(got, np.shape(base)))
    if up == "no_scaling":
        ctx.ensure("no_scaling:field-unchanged", ctx.eq(got, base))
    else:
        l = mod.len_scale
        edge = m.pow(V, 1.0 / dim)
        fac = m.pow(l ** 2 / (l ** 2 + edge ** 2 / 4), dim / 2.0)
        # field = base * sqrt(fac): stated without the square root as field^2 = base^2 * fac, same sign
        ctx.ensure("coarse_graining:field^2=raw^2*variance-factor",
                   ctx.And(*[ctx.eq(got[i] * got[i], base[i] * base[i] * fac) for i in range(2)]))
        ctx.ensure("coarse_graining:sign-kept", ctx.And(*[ctx.ge(got[i] * base[i], 0) for i in range(2)]))
