r"""Contracts on gstools.tools.special.exp_int / inc_gamma (the real functions, scipy.special
uninterpreted): which closed form / library routine evaluates E_s(x) resp. Gamma(s, x).

C03 and C02 use `exp_int` through its contract E(s, x) (uninterpreted); the truncated-power-law
correlations are only as good as the dispatch inside exp_int.  Documented meaning:
    E_s(x) = int_1^inf exp(-x t) t^-s dt,      Gamma(s, x) = int_x^inf t^(s-1) exp(-t) dt
The code evaluates them by case distinction on s.  Postconditions (x > 0 in the finite range):
  exp_int(s, x)  = exp1(x)                          if s is within the isclose window of 1
                 = expn(n, x), n = NEAREST integer  if s is within the isclose window of an integer n >= 0
                 = Gamma(1 - s, x) x^(s-1)          otherwise            (identity E_s = x^(s-1) Gamma(1-s, x))
  inc_gamma(s,x) = exp1(x)                          if s is within the window of 0
                 = x^s expn(1 - n, x)               if s is within the window of a negative integer n
                 = (Gamma(s + 1, x) - x^s e^-x) / s if s < 0             (recurrence, checked one step)
                 = gamma(s) gammaincc(s, x)         otherwise
and the order actually used differs from s by at most the isclose window (1e-8 + 1e-5 |n|): a
substitution by a FARTHER integer order (truncation instead of rounding) changes the value of the
correlation at O(1).
"""
import numpy as np

from gsvc.contract import contract
from gsvc import symrun

def _vec(ctx, x):
    return np.array([x], dtype=object) if ctx.mode == "sym" else np.array([float(x)])


WIN = lambda n: 1e-8 + 1e-5 * abs(n)      # noqa: E731  np.isclose(s, n) window


def register(P):
    import gstools.tools.special as spmod

    class sp:       # the real functions as they are at import time (contract stubs of other modules come later)
        exp_int = staticmethod(spmod.exp_int)
        inc_gamma = staticmethod(spmod.inc_gamma)
    assert spmod.exp_int.__module__ == "gstools.tools.special" and spmod.inc_gamma.__module__ == "gstools.tools.special"

    FN = ["tools/special.py:exp_int", "tools/special.py:inc_gamma"]

    @contract(P, "special.exp_int/order-dispatch-within-tolerance",
              params=[{"n": n, "where": w} for n in (0, 1, 2, 3, 4) for w in ("below", "above")] +
                     [{"n": n, "where": "between"} for n in (0, 1, 2, 3)],
              functions=FN, nsamples=3, search=30)
    def exp_int_dispatch(ctx, n, where):
        m = ctx.m
        if where == "between":      # s strictly between the windows of n and n + 1
            s = ctx.real("s", lo=n + 0.05, hi=n + 0.95)
            ctx.require(ctx.And(ctx.gt(s, n + 2 * WIN(n) + 1e-6), ctx.lt(s, n + 1 - 2 * WIN(n + 1) - 1e-6)))
        else:                       # s = n -/+ delta inside the window of n (one ulp off is the typical case)
            d = ctx.real("delta", lo=0.0, hi=0.9 * WIN(n))
            ctx.require(ctx.And(ctx.ge(d, 0), ctx.le(d, 0.9 * WIN(n))))
            s = (n - d) if where == "below" else (n + d)
        x = ctx.real("x", lo=0.05, hi=20.0)
        ctx.require(ctx.And(ctx.gt(x, 1e-3), ctx.lt(x, 30)))
        with np.errstate(all="ignore"):
            got = sp.exp_int(s, _vec(ctx, x))
        got = np.asarray(got, dtype=object).reshape(-1)[0] if np.ndim(got) else got
        if where != "between":
            want = m.fn("exp1", x) if n == 1 else m.fn("expn", n, x)
            ctx.ensure("near-integer-order:E_n(x)-of-the-NEAREST-integer", ctx.eq(got, want))
        else:
            # E_s(x) = x^(s-1) Gamma(1-s, x); Gamma(a, x) by the documented cases of inc_gamma
            a = 1 - s
            if n == 0:              # 0 < a < 1
                G = m.fn("gamma", a) * m.fn("gammaincc", a, x)
            else:                   # a < 0: recurrence down from a + k in (0, 1)
                G = None
            if G is not None:
                ctx.ensure("generic-order:x^(s-1)*Gamma(1-s,x)", ctx.eq(got, G * m.pow(x, s - 1)))
            else:
                with np.errstate(all="ignore"):
                    G1 = sp.inc_gamma(a, _vec(ctx, x))
                G1 = np.asarray(G1, dtype=object).reshape(-1)[0] if np.ndim(G1) else G1
                ctx.ensure("generic-order:x^(s-1)*inc_gamma(1-s,x)", ctx.eq(got, G1 * m.pow(x, s - 1)))

    @contract(P, "special.inc_gamma/order-dispatch-within-tolerance",
              params=[{"n": n, "where": w} for n in (0, -1, -2, -3) for w in ("below", "above")] +
                     [{"n": n, "where": "between"} for n in (0, -1, -2)],
              functions=FN, nsamples=3, search=30)
    def inc_gamma_dispatch(ctx, n, where):
        m = ctx.m
        if where == "between":      # n < s < n + 1 outside the windows
            s = ctx.real("s", lo=n + 0.05, hi=n + 0.95)
            ctx.require(ctx.And(ctx.gt(s, n + 2 * WIN(n) + 1e-6), ctx.lt(s, n + 1 - 2 * WIN(n + 1) - 1e-6)))
        else:
            d = ctx.real("delta", lo=0.0, hi=0.9 * WIN(n))
            ctx.require(ctx.And(ctx.ge(d, 0), ctx.le(d, 0.9 * WIN(n))))
            s = (n - d) if where == "below" else (n + d)
        x = ctx.real("x", lo=0.05, hi=20.0)
        ctx.require(ctx.And(ctx.gt(x, 1e-3), ctx.lt(x, 30)))
        with np.errstate(all="ignore"):
            got = sp.inc_gamma(s, _vec(ctx, x))
        got = np.asarray(got, dtype=object).reshape(-1)[0] if np.ndim(got) else got
        if where != "between":
            want = m.fn("exp1", x) if n == 0 else m.pow(x, s) * m.fn("expn", 1 - n, x)
            ctx.ensure("near-integer-order:x^s*E_(1-n)(x)-of-the-NEAREST-integer", ctx.eq(got, want))
        elif n == 0:
            ctx.ensure("positive-order:gamma(s)*gammaincc(s,x)", ctx.eq(got, m.fn("gamma", s) * m.fn("gammaincc", s, x)))
        else:
            with np.errstate(all="ignore"):
                up = sp.inc_gamma(s + 1, _vec(ctx, x))
            up = np.asarray(up, dtype=object).reshape(-1)[0] if np.ndim(up) else up
            ctx.ensure("negative-order:recurrence(Gamma(s+1,x)-x^s*e^-x)/s",
                       ctx.eq(got, (up - m.pow(x, s) * m.exp(-x)) / s))

    @contract(P, "special.exp_int/values-against-the-defining-integral(mpmath)",
              params={"s": [1.05, 1.1, 1.15, 1.3, 1.5, 1.75, 2.0, 2.5, 3.0, 3.7, 5.5, 10.0, 26.0, 1.0000001, 2.9999999]},
              functions=FN, bounded="grid: 15 orders s > 1 (the orders 1 + hurst/alpha-type expressions of the TPL and "
                                    "Integral models can take) x 27 arguments 1e-16 .. 100; reference mpmath.expint at 30 digits; "
                                    "tolerance 1e-5 relative + 1e-9 absolute")
    def exp_int_values(ctx, s):
        """bounded native stand-in for the numerically motivated switches inside exp_int (small-x limit,
        large-x asymptote, near-integer orders): the value is E_s(x) of the documented defining integral"""
        import mpmath as mp
        mp.mp.dps = 30
        X = [10.0 ** e for e in range(-16, 2)] + [3e-13, 2.0, 5.0, 20.0, 29.0, 31.0, 40.0, 100.0, 7e-11]
        bad = []
        with symrun.native():
            for x in X:
                got = float(np.asarray(sp.exp_int(s, np.array([x]))).ravel()[0])
                ref = float(mp.expint(s, x))
                if not abs(got - ref) <= 1e-9 + 1e-5 * abs(ref):
                    bad.append((x, got, ref))
        if bad and ctx.mode == "conc":
            ctx.results["first-deviation"] = repr(bad[0])
        ctx.ensure("E_s(x)-within-tolerance-on-the-grid", not bad)

    @contract(P, "special.inc_gamma,inc_gamma_low/values-against-the-defining-integrals(mpmath)",
              params={"s": [0.5, 1.0, 1.5, 2.0, 2.5, 3.5, 5.5, 10.0]},
              functions=["tools/special.py:inc_gamma", "tools/special.py:inc_gamma_low"],
              bounded="grid: 8 orders x 18 arguments 1e-12 .. 40 (lower function) resp. 1e-8 .. 40 (upper function, also the "
                      "negative orders -s up to x = 20); reference mpmath.gammainc at 30 digits; relative tolerance 1e-8")
    def inc_gamma_values(ctx, s):
        """bounded native stand-in for floating-point effects (e.g. evaluating the lower function as a difference
        Gamma(s) - Gamma(s, x), which cancels for small x): the values are those of the documented integrals"""
        import mpmath as mp
        import gstools.tools.special as real
        mp.mp.dps = 30
        bad = []
        with symrun.native():
            for x in [10.0 ** e for e in range(-12, 2)] + [2.0, 5.0, 20.0, 40.0]:
                got = float(np.asarray(real.inc_gamma_low(s, np.array([x]))).ravel()[0])
                ref = float(mp.gammainc(s, 0, x))
                if not abs(got - ref) <= 1e-8 * abs(ref) + 1e-300:
                    bad.append(("low", s, x, got, ref))
                if x >= 1e-8:
                    # negative orders (the recurrence) up to x = 20: the range exp_int uses them in
                    for ss in ((s, -s) if x <= 20.0 else (s,)):
                        got = float(np.asarray(sp.inc_gamma(ss, np.array([x]))).ravel()[0])
                        ref = float(mp.gammainc(ss, x))
                        if not abs(got - ref) <= 1e-8 * abs(ref) + 1e-300:
                            bad.append(("up", ss, x, got, ref))
        if bad and ctx.mode == "conc":
            ctx.results["first-deviation"] = repr(bad[0])
        ctx.ensure("values-within-tolerance-on-the-grid", not bad)

    return exp_int_dispatch, inc_gamma_dispatch
