r"""Shared infrastructure for the generator contracts (C11, C17, C16, C01, C07).

* kernel contract stubs: when called with symbolic arrays the compiled summation kernels are
  replaced by their *postconditions* (the defining sums proved for the .pyx sources by the
  kernvc engine, property C15) evaluated as Python spec functions on symbolic arrays; with
  concrete arrays the real compiled kernels run (so every native spot check also compares the
  spec function with the compiled artefact).
* ghost RNG: `gstools.field.generator.RNG` is replaced (symbolic runs only) by a ghost random
  source whose draws are uninterpreted functions of (seed VALUE, index of the sub-stream, element
  index[, the numeric view of the model whose spectral law is sampled]).  This encodes the
  assumed dependency contract T5 "numpy RandomState / MasterRNG are deterministic functions of the
  seed value and of the number of draws" and makes "equal state" a term equality; the sub-stream
  counter is the stream position.
* a generic model class with uninterpreted normalised correlation and spectral density.
"""
import numpy as np
import z3

import gstools as gs
from gsvc import symrun
from gsvc.symrun import SymReal, uf, wrap, is_sym, symbolic_active, lift

_INSTALLED = False
REAL = {}


# ---------------------------------------------------------------------------------------
# kernel postconditions as spec functions (property C15 proves them for the .pyx sources)
# ---------------------------------------------------------------------------------------
def _phase(cov, pos, j, i):
    ph = 0
    for d in range(pos.shape[0]):
        ph = ph + cov[d, j] * pos[d, i]
    return ph


def spec_summate(cov_samples, z_1, z_2, pos, num_threads=None):
    cov, pos = np.asarray(cov_samples, dtype=object), np.asarray(pos, dtype=object)
    X, N = pos.shape[1], cov.shape[1]
    out = np.empty(X, dtype=object)
    for i in range(X):
        s = wrap(0)
        for j in range(N):
            ph = wrap(_phase(cov, pos, j, i))
            s = s + z_1[j] * ph.cos() + z_2[j] * ph.sin()
        out[i] = s
    return out


def spec_summate_fourier(spectrum_factor, modes, z_1, z_2, pos, num_threads=None):
    modes, pos = np.asarray(modes, dtype=object), np.asarray(pos, dtype=object)
    X, N = pos.shape[1], modes.shape[1]
    out = np.empty(X, dtype=object)
    for i in range(X):
        s = wrap(0)
        for j in range(N):
            ph = wrap(_phase(modes, pos, j, i))
            s = s + spectrum_factor[j] * (z_1[j] * ph.cos() + z_2[j] * ph.sin())
        out[i] = s
    return out


def spec_summate_incompr(cov_samples, z_1, z_2, pos, num_threads=None):
    cov, pos = np.asarray(cov_samples, dtype=object), np.asarray(pos, dtype=object)
    D, X, N = pos.shape[0], pos.shape[1], cov.shape[1]
    out = np.empty((D, X), dtype=object)
    for d in range(D):
        for i in range(X):
            s = wrap(0)
            for j in range(N):
                k2 = 0
                for dd in range(cov.shape[0]):
                    k2 = k2 + cov[dd, j] * cov[dd, j]
                ph = wrap(_phase(cov, pos, j, i))
                proj = (1 if d == 0 else 0) - cov[d, j] * cov[0, j] / k2
                s = s + proj * (z_1[j] * ph.cos() + z_2[j] * ph.sin())
            out[d, i] = s
    return out


def _kernel_stub(real, spec):
    def f(*a, **k):
        if symbolic_active() and any(is_sym(x) or (isinstance(x, np.ndarray) and x.dtype == object)
                                     for x in a):
            return spec(*a, **k)
        return real(*a, **k)
    f.__name__ = getattr(real, "__name__", "kernel")
    return f


# ---------------------------------------------------------------------------------------
# ghost RNG
# ---------------------------------------------------------------------------------------
NONE_SEED = z3.Real("seed!None")      # RNG(None): a fresh OS seed, modelled as one unknown value


def _seed_term(seed):
    if seed is None:
        return NONE_SEED
    return lift(seed)


class GhostState:
    """stands in for numpy.random.RandomState(sub_seed): every method result is an uninterpreted
    function of (seed value, sub-stream index, element index)"""

    def __init__(self, seed_t, k):
        self.seed_t, self.k = seed_t, k

    def _draw(self, kind, size, *extra):
        n = int(np.prod(size)) if size is not None else 1
        out = np.empty(n, dtype=object)
        for i in range(n):
            out[i] = uf(kind, SymReal(self.seed_t), self.k, i, *extra)
        if size is None:
            return out[0]
        return out.reshape(size)

    def normal(self, loc=0.0, scale=1.0, size=None):
        z = self._draw("rng_normal", size)
        return loc + scale * z

    def uniform(self, low=0.0, high=1.0, size=None):
        u = self._draw("rng_uniform", size)
        for x in np.atleast_1d(u).ravel().tolist():
            symrun.CUR.add_assume(z3.And(x.t >= 0, x.t < 1))
        return low + (high - low) * u

    def rand(self, *shape):
        return self.uniform(size=shape if shape else None)

    def choice(self, a, size=None, replace=True, p=None):
        a = list(np.atleast_1d(a))
        if len(a) == 2 and all(not is_sym(x) for x in a):
            c = self._draw("rng_choice2", size)
            for x in np.atleast_1d(c).ravel().tolist():
                symrun.CUR.add_assume(z3.Or(x.t == lift(a[0]), x.t == lift(a[1])))
            return c
        raise symrun.Unsupported("ghost RandomState.choice over %d values" % len(a))

    def get_state(self):
        return ("ghost-state", self.seed_t, self.k)


def _model_view_terms(model):
    """numeric parameters the spectral law of `model` depends on (its whole numeric view)"""
    vals = [model.dim, model.len_rescaled]
    for k in model.opt_arg:
        vals.append(getattr(model, k))
    return type(model).__name__, vals


class GhostRNG:
    SAMPLED = []     # log of (pdf, cdf, ppf) / ln_pdf handed to the radius samplers

    def __init__(self, seed=None):
        self.seed_value = seed
        self.seed_t = _seed_term(seed)
        self.count = 0

    @property
    def random(self):
        # the real RNG derives a new RandomState from the master RNG on every access
        st = GhostState(self.seed_t, self.count)
        self.count += 1
        return st

    @property
    def seed(self):
        return self.seed_value

    def sample_sphere(self, dim, size=None):
        # the real method, executed on the ghost random source
        return REAL["RNG"].sample_sphere(self, dim, size)

    def sample_dist(self, pdf=None, cdf=None, ppf=None, size=None, **kwargs):
        st = self.random
        GhostRNG.SAMPLED.append(("dist", pdf, cdf, ppf, kwargs))
        owner = getattr(pdf, "__self__", None)
        name, vals = _model_view_terms(owner) if owner is not None else ("?", [])
        out = np.empty(size, dtype=object)
        for i in range(size):
            r = uf("rng_rad_inversion_" + name, SymReal(st.seed_t), st.k, i, *vals)
            symrun.CUR.add_assume(r.t >= 0)
            out[i] = r
        return out

    def sample_ln_pdf(self, ln_pdf, size=None, sample_around=1.0, nwalkers=50, burn_in=20,
                      oversampling_factor=10):
        # mirrors the number of sub-stream accesses of the real method (rand, 2 x get_state, choice)
        k0 = self.count
        self.count += 4
        GhostRNG.SAMPLED.append(("ln_pdf", ln_pdf, sample_around))
        owner = getattr(ln_pdf, "__self__", None)
        name, vals = _model_view_terms(owner) if owner is not None else ("?", [])
        out = np.empty(size, dtype=object)
        for i in range(size):
            r = uf("rng_rad_mcmc_" + name, SymReal(self.seed_t), k0, i, *vals)
            symrun.CUR.add_assume(r.t >= 0)
            out[i] = r
        return out


def _rng_factory(seed=None):
    if symbolic_active():
        return GhostRNG(seed)
    return REAL["RNG"](seed)


# ---------------------------------------------------------------------------------------
def _sh_arange(*a, **kw):
    if symbolic_active() and any(is_sym(x) for x in a):
        from gsvc import ringnf
        start, stop, step = (0, a[0], 1) if len(a) == 1 else (a[0], a[1], 1) if len(a) == 2 else a
        start, stop, step = wrap(start), wrap(stop), wrap(step)
        path = symrun.CUR
        # exact real arithmetic: if stop - start = N * step identically (ring normal form) the
        # result has N elements start + m*step (floating-point end-point effects: T1 residue)
        ring = ringnf.Ring([], ringnf.nonzero_atoms(path.assume + path.pc))
        N = None
        try:
            # candidate for the constant ratio (stop-start)/step from one model of the path
            import math
            from fractions import Fraction
            sv = z3.Solver()
            sv.set("timeout", 3000)
            for f in path.assume + path.pc:
                sv.add(f)
            q = z3.Real("arange!q")
            sv.add(step.t != 0, q * step.t == stop.t - start.t)
            cands = []
            if sv.check() == z3.sat:
                v = sv.model().eval(q, model_completion=True)
                if z3.is_rational_value(v):
                    cands.append(Fraction(v.numerator_as_long(), v.denominator_as_long()))
            cands += list(range(0, 65))
            for cand in cands:
                if ring.is_zero(stop.t - start.t - z3.RealVal(cand) * step.t):
                    N = max(int(math.ceil(cand)), 0)      # numpy: ceil((stop-start)/step) elements
                    break
        except ringnf.NotPoly:
            N = None
        if N is None:
            raise symrun.Unsupported("np.arange with symbolic bounds: (stop-start)/step is not a "
                                     "constant on this path")
        out = np.empty(N, dtype=object)
        for m in range(N):
            out[m] = start + m * step
        return out
    return np.arange(*a, **kw)


def _sh_insert(arr, obj, values, axis=None):
    if symbolic_active() and (is_sym(arr) or is_sym(values)):
        a = list(np.asarray(arr, dtype=object).ravel())
        a.insert(obj, wrap(values))
        return symrun.symarr(np.array(a, dtype=object))
    return np.insert(arr, obj, values, axis=axis)


def install():
    """idempotent; verifier process only"""
    global _INSTALLED
    if _INSTALLED:
        return
    _INSTALLED = True
    import gstools.field.generator as G
    REAL["RNG"] = G.RNG
    REAL["summate_c"], REAL["summate_incompr_c"], REAL["summate_fourier_c"] = \
        G.summate_c, G.summate_incompr_c, G.summate_fourier_c
    G.RNG = _rng_factory
    G.summate_c = _kernel_stub(REAL["summate_c"], spec_summate)
    G.summate_incompr_c = _kernel_stub(REAL["summate_incompr_c"], spec_summate_incompr)
    G.summate_fourier_c = _kernel_stub(REAL["summate_fourier_c"], spec_summate_fourier)
    symrun._NP_OVERRIDES["arange"] = _sh_arange
    symrun._NP_OVERRIDES["insert"] = _sh_insert
    symrun.SHIM_LOG.extend([
        "gstools.field.generator.RNG -> ghost RNG (draws = uninterpreted functions of seed value, "
        "sub-stream index, element index) in symbolic runs",
        "gstools.field.generator.summate_c / summate_incompr_c / summate_fourier_c -> kernel "
        "postconditions (C15) as spec functions in symbolic runs",
        "np.arange / np.insert with symbolic arguments",
    ])
    if not hasattr(SymReal, "__deepcopy__"):
        SymReal.__deepcopy__ = lambda self, memo: self
        symrun.SymBool.__deepcopy__ = lambda self, memo: self


# ---------------------------------------------------------------------------------------
def generic_model_class(ctx):
    """user model with uninterpreted normalised correlation and spectral density: obligations
    proved with it hold for every model class"""
    m = ctx.m

    def _app(name, x, *extra):
        x = np.asarray(x, dtype=object)
        if x.ndim == 0:
            return m.fn(name, x.item(), *extra)
        out = np.empty(x.shape, dtype=object)
        for i, v in enumerate(x.ravel().tolist()):
            out.reshape(-1)[i] = m.fn(name, v, *extra)
        return out if ctx.mode == "sym" else out.astype(float)

    class UModel(gs.CovModel):
        def cor(self, h):
            return _app("ucor", h)

        def spectral_density(self, k):
            return _app("uspecdens", k, self.len_rescaled, self.dim)

    return UModel


symrun.CONC_FUNCS.setdefault("ucor", lambda h: float(np.exp(-abs(h) ** 1.5)))
symrun.CONC_FUNCS["uspecdens"] = lambda k, l, d: float((l / 2 / np.sqrt(np.pi)) ** d * np.exp(-(k * l / 2) ** 2))
