"""T4 derivative table applied mechanically to z3 real terms (chain/product/quotient rules;
d sin = cos, d cos = -sin, d exp = exp, d log = 1/x, d sqrt = 1/(2 sqrt), d x^n = n x^(n-1) for
numeral n).  Piecewise (ite) terms are differentiated branch-wise, valid away from the switch."""
import z3


def _contains(u, x, memo):
    k = u.get_id()
    if k in memo:
        return memo[k][1]
    r = u.eq(x) or any(_contains(c, x, memo) for c in u.children())
    memo[k] = (u, r)
    return r


def D(t, x):
    """d t / d x ; `x` must be a z3 real constant"""
    memo, cmemo = {}, {}
    zero, one = z3.RealVal(0), z3.RealVal(1)

    def dep(u):
        return _contains(u, x, cmemo)

    def d(u):
        k = u.get_id()
        if k in memo:
            return memo[k][1]
        r = _d(u)
        memo[k] = (u, r)      # keep u alive: z3 re-uses ids
        return r

    def _d(u):
        if u.eq(x):
            return one
        if not dep(u):
            return zero
        kind = u.decl().kind()
        ch = u.children()
        if kind == z3.Z3_OP_ADD:
            return z3.Sum([d(c) for c in ch if dep(c)])
        if kind == z3.Z3_OP_SUB:
            r = d(ch[0])
            for c in ch[1:]:
                r = r - d(c)
            return r
        if kind == z3.Z3_OP_UMINUS:
            return -d(ch[0])
        if kind == z3.Z3_OP_MUL:
            terms = []
            for i, c in enumerate(ch):
                if dep(c):
                    others = [o for j, o in enumerate(ch) if j != i]
                    terms.append(z3.Product([d(c)] + others) if others else d(c))
            return z3.Sum(terms) if len(terms) > 1 else terms[0]
        if kind == z3.Z3_OP_DIV:
            a, b = ch
            if not dep(b):
                return d(a) / b
            return (d(a) * b - a * d(b)) / (b * b)
        if kind == z3.Z3_OP_POWER and z3.is_rational_value(ch[1]):
            return ch[1] * (ch[0] ** (ch[1] - 1)) * d(ch[0])
        if kind == z3.Z3_OP_ITE:
            return z3.If(ch[0], d(ch[1]), d(ch[2]))
        if kind == z3.Z3_OP_UNINTERPRETED and len(ch) == 1:
            name = u.decl().name()
            a = ch[0]
            f = u.decl()
            R = z3.RealSort()
            if name == "sin":
                return z3.Function("cos", R, R)(a) * d(a)
            if name == "cos":
                return -z3.Function("sin", R, R)(a) * d(a)
            if name == "exp":
                return u * d(a)
            if name == "log":
                return d(a) / a
            if name == "sqrt":
                return d(a) / (2 * u)
            if name == "erf":
                PI = z3.Real("pi")
                return 2 / z3.Function("sqrt", R, R)(PI) * z3.Function("exp", R, R)(-(a * a)) * d(a)
            if name == "arctan":
                return d(a) / (1 + a * a)
            if name == "tan":
                return (1 + u * u) * d(a)
        raise NotImplementedError("derivative of %s" % u.decl().name())

    return d(t)
