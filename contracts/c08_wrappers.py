"""C08 wrapper layer, symbolic part: what vario_estimate hands to the kernel when several fields with
DIFFERENT per-field missing values are combined with an explicit ``mask=`` array (capture stubs and
contract function shared with contracts/c09.py; registered here under property C08).

Definition (docstring / property statement): a (point, field) value that is masked / NaN / no_data counts
as NaN for that field only; a point is removed only if it is masked by the explicit mask or masked in ALL
fields of a masked array."""
from gsvc.contract import contract
from contracts import c09


def _params():
    out = []
    for (n, F) in ((3, 2), (4, 2)):
        for p in c09._patterns(n, F):
            if p["pmask"] is not None and any(any(r) for r in p["fmask"]):
                out.append(dict(p, n=n, F=F))
        # field masks that differ between the two fields, one point masked in both, explicit mask on another
        pm = [0] * n
        pm[-1] = 1
        f0 = [1, 1] + [0] * (n - 2)
        f1 = [0, 1] + [0] * (n - 2)
        for how in ("masked_array", "nan", "no_data"):
            out.append({"pmask": pm, "fmask": [f0, f1], "how": how, "n": n, "F": F})
    return out


contract("C08", "vario_estimate/several-fields-with-different-missing-values-and-explicit-mask",
         params=_params(), functions=c09.FN, bounded=c09.B_SHAPES, nsamples=2)(c09.missing)
