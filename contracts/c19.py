r"""C19 -- field transformations produce their documented target distributions.

Every array_* function is the quantile map (ppf) of its documented target law composed with the
cdf of the normal input,  Phi((x - mu)/sigma) = (1 + erf((x - mu)/(sigma sqrt 2)))/2 :

  uniform on [low, high]      low + (high - low) Phi
  arcsine on [a, b]           a + (b - a) sin^2(pi Phi / 2)          (ppf of the arcsine law)
  U-quadratic on [a, b]       beta + cbrt(3 Phi / alpha - (beta - a)^3),
                              alpha = 12/(b - a)^3, beta = (a + b)/2  (ppf of the U-quadratic law)
  log-normal                  exp(x)
  Zinn-Harvey                 mu -+ sigma Phi^-1(F_|Z|(|z|)),  z = (x - mu)/sigma,
                              F_|Z|(t) = erf(t / sqrt 2),  Phi^-1(p) = sqrt 2 erfinv(2 p - 1)
  Box-Cox                     inverse of the Box-Cox normalizer after the shift
  force moments               sample mean / variance of the output are the requested ones
  discrete / binary           the given values on the partition made by the thresholds

Spec sources: the property statement, the docstrings of transform/array.py and the laws they cite
(arcsine law on [a, b]: mean (a+b)/2, variance (b-a)^2/8; U-quadratic law on [a, b]: mean
(a+b)/2, variance 3 (b-a)^2/20).  That a quantile map pushes the normal law to the target law
(probability integral transform) is an ASSUMED lemma (T8), not proved here.
"""
import warnings
from fractions import Fraction

import numpy as np
import scipy.special as _sps

import gstools as gs
from gstools import normalizer as gn
from gstools.transform import array as ta
from gstools.transform import field as tf
from gsvc.contract import contract
from gsvc import symrun
from contracts import axioms as ax
from contracts import c18
from contracts.c18 import arr, lazy_ite, is_nan_leaf, _quiet, isclose, lemma

P = "C19"
SRC = "transform/array.py:"
SQ2 = float(np.sqrt(2))           # the float constant the code uses in array_zinnharvey


# transform/array.py binds `erf`, `erfinv` by name (from scipy.special import erf, erfinv)
def install_erf_stubs():
    if getattr(ta.erf, "_gsvc_uf", False):
        return
    shim = symrun.UFModule(_sps)
    for name in ("erf", "erfinv"):
        f = getattr(shim, name)
        f._gsvc_uf = True
        setattr(ta, name, f)
    symrun.SHIM_LOG.append("gstools.transform.array.erf / erfinv (scipy.special -> UF for symbolic arguments)")


install_erf_stubs()


# ---------------------------------------------------------------------------------------
# spec side
# ---------------------------------------------------------------------------------------
def Phi(ctx, x, mu, var):
    """normal cdf with mean mu and variance var"""
    m = ctx.m
    return (1 + m.fn("erf", (x - mu) / (m.sqrt(var) * m.sqrt(2)))) / 2


def cdf_hints(ctx, var):
    """the code evaluates sqrt(2 var) (sqrt(var 2) in array_discrete)"""
    ax.sqrt_prod(ctx, var, 2)
    if ctx.mode == "sym":
        ctx.hint(ctx.eq(ctx.m.sqrt(2 * var), ctx.m.sqrt(var * 2)), "sqrt(2v)=sqrt(v2) (same argument)")


def ppf_uniform(ctx, u, low, high):
    return low + (high - low) * u


def ppf_arcsine(ctx, u, a, b):
    s = ctx.m.sin(ctx.m.pi * u / 2)
    return a + (b - a) * s * s


def ppf_uquad(ctx, u, a, b):
    alpha = 12 / ((b - a) * (b - a) * (b - a))
    beta = (a + b) / 2
    d = beta - a
    return beta + ctx.m.cbrt(3 * u / alpha - d * d * d)


def mean_var(ctx, xs):
    n = len(xs)
    mu = sum(xs) / n
    return mu, sum((x - mu) * (x - mu) for x in xs) / n


def moments_input(ctx, given):
    """mean/var arguments: explicit symbolic values, or None (then the sample statistics of a
    2-element field are used)"""
    if given:
        mu, var = ctx.real("mean"), ctx.real("var", pos=True)
        ctx.require(ctx.gt(var, 0))
        x = ctx.real("x")
        return [x], mu, var, dict(mean=mu, var=var)
    xs = ctx.reals("x", 2)
    mu, var = mean_var(ctx, xs)
    ctx.require(ctx.gt(var, 0), "non-constant field")
    return xs, mu, var, {}


MOM = {"given": [True, False]}
BND = "2 field values (sample statistics)"


# ---------------------------------------------------------------------------------------
# uniform / arcsine / U-quadratic / log-normal
# ---------------------------------------------------------------------------------------
@contract(P, "array.array_to_uniform/low+(high-low).Phi", params=MOM, functions=[SRC + "array_to_uniform"])
def uniform(ctx, given):
    xs, mu, var, kw = moments_input(ctx, given)
    low, high = ctx.real("low"), ctx.real("high")
    cdf_hints(ctx, var)
    out = ta.array_to_uniform(arr(ctx, xs), low=low, high=high, **kw)
    ctx.ensure("shape", ctx.shape_eq(out, (len(xs),)))
    for i, x in enumerate(xs):
        ctx.ensure("out=low+(high-low).Phi((x-mu)/sigma)", ctx.eq(out[i], ppf_uniform(ctx, Phi(ctx, x, mu, var), low, high)))
        ctx.ensure("low<high=>out-in-[low,high]", ctx.Implies(ctx.lt(low, high), ctx.And(ctx.ge(out[i], low), ctx.le(out[i], high))))
    d = ta.array_to_uniform(arr(ctx, xs), **kw)
    for i, x in enumerate(xs):
        ctx.ensure("defaults:uniform-on-[0,1]", ctx.eq(d[i], Phi(ctx, x, mu, var)))


@contract(P, "array.array_to_uniform/increasing", functions=[SRC + "array_to_uniform"])
def uniform_monotone(ctx):
    # (sampling ranges keep |z| small enough that erf does not saturate to +-1 in floats)
    mu, var = ctx.real("mean", lo=-1.0, hi=1.0), ctx.real("var", lo=0.5, hi=2.0)
    x1, x2 = ctx.real("x1", lo=-2.0, hi=2.0), ctx.real("x2", lo=-2.0, hi=2.0)
    low, high = ctx.real("low"), ctx.real("high")
    ctx.require(ctx.And(ctx.gt(var, 0), ctx.lt(x1, x2), ctx.lt(low, high)))
    out = ta.array_to_uniform(arr(ctx, [x1, x2]), mean=mu, var=var, low=low, high=high)
    ctx.ensure("x1<x2=>out1<out2", ctx.lt(out[0], out[1]))


@contract(P, "array.array_to_arcsin/a+(b-a).sin^2(pi.Phi/2)",
          params=[{"given": True, "bounds": "given"}, {"given": True, "bounds": "default"}, {"given": False, "bounds": "default"},
                  {"given": True, "bounds": "only-a"}, {"given": True, "bounds": "only-b"}],
          functions=[SRC + "array_to_arcsin", SRC + "_uniform_to_arcsin"])
def arcsine(ctx, given, bounds):
    xs, mu, var, kw = moments_input(ctx, given)
    m = ctx.m
    cdf_hints(ctx, var)
    if bounds == "given":
        a, b = ctx.real("a"), ctx.real("b")
        kw.update(a=a, b=b)
    elif bounds in ("only-a", "only-b"):     # each bound has its own documented default
        a, b = mu - m.sqrt(2.0 * var), mu + m.sqrt(2.0 * var)
        if bounds == "only-a":
            a = ctx.real("a")
            kw.update(a=a)
        else:
            b = ctx.real("b")
            kw.update(b=b)
    else:       # documented default: keep mean and variance
        a, b = mu - m.sqrt(2.0 * var), mu + m.sqrt(2.0 * var)
        # the arcsine law on [a, b] has mean (a+b)/2 and variance (b-a)^2/8
        ctx.ensure("default-bounds:mean-of-arcsine-law=mu", ctx.eq((a + b) / 2, mu))
        ctx.ensure("default-bounds:variance-of-arcsine-law=var", ctx.eq((b - a) * (b - a) / 8, var))
    out = ta.array_to_arcsin(arr(ctx, xs), **kw)
    for i, x in enumerate(xs):
        ctx.ensure("out=a+(b-a).sin^2(pi.Phi/2)", ctx.eq(out[i], ppf_arcsine(ctx, Phi(ctx, x, mu, var), a, b)))
        ctx.ensure("a<b=>out-in-[a,b]", ctx.Implies(ctx.lt(a, b), ctx.And(ctx.ge(out[i], a), ctx.le(out[i], b))))


def uquad_terms(ctx, u, a, b):
    """alpha, beta and Y = 3 u / alpha - (beta - a)^3 of the U-quadratic ppf"""
    alpha = 12 / ((b - a) * (b - a) * (b - a))
    beta = (a + b) / 2
    d = beta - a
    return alpha, beta, d, 3 * u / alpha - d * d * d


@contract(P, "array.array_to_uquad/beta+cbrt(3.Phi/alpha-(beta-a)^3)",
          params=[{"given": True, "bounds": "given"}, {"given": True, "bounds": "default"}, {"given": False, "bounds": "default"},
                  {"given": True, "bounds": "only-a"}, {"given": True, "bounds": "only-b"}],
          functions=[SRC + "array_to_uquad", SRC + "_uniform_to_uquad"], timeout=40)
def uquad(ctx, given, bounds):
    """out = beta + cbrt(Y) is stated as (out - beta)^3 = Y (the real cube root is the unique real
    solution), i.e. out solves F(out) = Phi for the U-quadratic cdf
    F(t) = alpha/3 ((t - beta)^3 + (beta - a)^3)"""
    xs, mu, var, kw = moments_input(ctx, given)
    m = ctx.m
    cdf_hints(ctx, var)
    if bounds == "given":
        a, b = ctx.real("a"), ctx.real("b")
        Hab = ctx.require(ctx.lt(a, b))
        kw.update(a=a, b=b)
    elif bounds in ("only-a", "only-b"):     # each bound has its own documented default
        a, b = mu - m.sqrt(5.0 / 3.0 * var), mu + m.sqrt(5.0 / 3.0 * var)
        if bounds == "only-a":
            a = ctx.real("a", lo=-6.0, hi=-3.0)
            kw.update(a=a)
        else:
            b = ctx.real("b", lo=3.0, hi=6.0)
            kw.update(b=b)
        Hab = ctx.require(ctx.lt(a, b))
    else:
        a, b = mu - m.sqrt(5.0 / 3.0 * var), mu + m.sqrt(5.0 / 3.0 * var)
        # the U-quadratic law on [a, b] has mean (a+b)/2 and variance 3 (b-a)^2/20
        ctx.ensure("default-bounds:mean-of-U-quadratic-law=mu", ctx.eq((a + b) / 2, mu))
        ctx.ensure("default-bounds:variance-of-U-quadratic-law=var", ctx.eq(3 * (b - a) * (b - a) / 20, var))
        Hab = lemma(ctx, "default-bounds:a<b", ctx.lt(a, b))
    out = ta.array_to_uquad(arr(ctx, xs), **kw)
    for i, x in enumerate(xs):
        u = Phi(ctx, x, mu, var)
        alpha, beta, d, y = uquad_terms(ctx, u, a, b)
        # the code takes |Y|^(1/3) and restores the sign
        h1, h2 = ax.pow_third_cubed(ctx, y), ax.pow_third_cubed(ctx, -y)
        t = out[i] - beta
        pc = list(ctx.path.pc) if ctx.mode == "sym" else []
        L = lemma(ctx, "(out-beta)^3=Y", ctx.eq(t * t * t, y))
        ctx.ensure("F(out)=Phi", ctx.eq(alpha / 3 * (t * t * t + d * d * d), u), using=[L, Hab], generalize=[u, out[i]])
        if ctx.mode == "conc":
            ctx.ensure("out=beta+cbrt(3.Phi/alpha-(beta-a)^3)", ctx.eq(out[i], ppf_uquad(ctx, u, a, b)))
        else:       # same statement (cube roots are unique); the native run checks the cbrt form
            ctx.ensure("out=beta+cbrt(3.Phi/alpha-(beta-a)^3)", ctx.eq(t * t * t, y), using=[L])


@contract(P, "array.array_to_uquad/range-and-order", functions=[SRC + "array_to_uquad", SRC + "_uniform_to_uquad"], timeout=40)
def uquad_range(ctx):
    mu, var = ctx.real("mean", lo=-1.0, hi=1.0), ctx.real("var", lo=0.5, hi=2.0)
    a, b, x1, x2 = ctx.real("a"), ctx.real("b"), ctx.real("x1", lo=-2.0, hi=2.0), ctx.real("x2", lo=-2.0, hi=2.0)
    Hab = ctx.require(ctx.And(ctx.gt(var, 0), ctx.lt(a, b)))
    Hx = ctx.require(ctx.lt(x1, x2))
    cdf_hints(ctx, var)
    out = ta.array_to_uquad(arr(ctx, [x1, x2]), mean=mu, var=var, a=a, b=b)
    pc = list(ctx.path.pc) if ctx.mode == "sym" else []
    ts, us, Ls = [], [], []
    for i, x in enumerate((x1, x2)):
        u = Phi(ctx, x, mu, var)
        alpha, beta, d, y = uquad_terms(ctx, u, a, b)
        h1, h2 = ax.pow_third_cubed(ctx, y), ax.pow_third_cubed(ctx, -y)
        t = out[i] - beta
        Ls.append(lemma(ctx, "(out-beta)^3=Y", ctx.eq(t * t * t, y)))
        ts.append(t)
        us.append(u)
    U = lemma(ctx, "0<Phi(x1)<Phi(x2)<1", ctx.And(ctx.gt(us[0], 0), ctx.lt(us[0], us[1]), ctx.lt(us[1], 1)))
    ctx.ensure("out-in-[a,b]", ctx.And(ctx.ge(out[0], a), ctx.le(out[0], b)), using=[Ls[0], U, Hab], generalize=[us[0], us[1], out[0]])
    ctx.ensure("x1<x2=>out1<out2", ctx.lt(out[0], out[1]), using=[Ls[0], Ls[1], U, Hab], generalize=[us[0], us[1], out[0], out[1]])


@contract(P, "array.array_to_lognormal/exp", functions=[SRC + "array_to_lognormal"])
def lognormal(ctx):
    x = ctx.real("x")
    out = ta.array_to_lognormal(arr(ctx, [x]))
    ctx.ensure("out=exp(x)", ctx.eq(out[0], ctx.m.exp(x)))
    ctx.ensure("log(out)=x(normal-again)", ctx.eq(ctx.m.log(out[0]), x))


# ---------------------------------------------------------------------------------------
# Zinn-Harvey
# ---------------------------------------------------------------------------------------
def spec_zinnharvey(ctx, x, mu, var, conn):
    m = ctx.m
    sig = m.sqrt(var)
    z = m.abs((x - mu) / sig)
    w = SQ2 * m.fn("erfinv", 2 * m.fn("erf", z / SQ2) - 1)      # Phi^-1(F_|Z|(|z|))
    return mu - sig * w if conn == "high" else mu + sig * w


@contract(P, "array.array_zinnharvey/mu-+sigma.Phi^-1(F|Z|(|z|))", params={"given": [True, False], "conn": ["high", "low"]},
          functions=[SRC + "array_zinnharvey"])
def zinnharvey(ctx, given, conn):
    xs, mu, var, kw = moments_input(ctx, given)
    out = ta.array_zinnharvey(arr(ctx, xs), conn=conn, **kw)
    for i, x in enumerate(xs):
        ctx.ensure("out=mu-+sigma.Phi^-1(F|Z|(|z|))", ctx.eq(out[i], spec_zinnharvey(ctx, x, mu, var, conn)))


@contract(P, "array.array_zinnharvey/symmetric-and-order-reversing", params={"conn": ["high", "low"]},
          functions=[SRC + "array_zinnharvey"])
def zinnharvey_order(ctx, conn):
    """even in x - mu; values closer to the mean are mapped ABOVE (conn=high) / BELOW (conn=low)
    values farther from it: the extreme classes swap roles with the mean class"""
    mu, var = ctx.real("mean"), ctx.real("var", lo=0.5, hi=2.0)
    d1, d2 = ctx.real("d1", lo=0.0, hi=2.5), ctx.real("d2", lo=0.0, hi=2.5)
    ctx.require(ctx.And(ctx.gt(var, 0), ctx.ge(d1, 0), ctx.lt(d1, d2)))
    out = ta.array_zinnharvey(arr(ctx, [mu + d1, mu - d1, mu + d2]), conn=conn, mean=mu, var=var)
    ctx.ensure("even", ctx.eq(out[0], out[1]))
    ctx.ensure("|x1-mu|<|x2-mu|=>order", ctx.gt(out[0], out[2]) if conn == "high" else ctx.lt(out[0], out[2]))


# ---------------------------------------------------------------------------------------
# Box-Cox
# ---------------------------------------------------------------------------------------
@contract(P, "array.array_boxcox/inverse-of-BoxCox-normalizer", params={"branch": ["zero", "neg", "pos"]},
          functions=[SRC + "array_boxcox", "normalizer/methods.py:BoxCox._normalize", "normalizer/methods.py:BoxCox._denormalize"])
def boxcox(ctx, branch):
    norm, par = c18.make(ctx, "BoxCox", branch)
    lam = par["lmbda"]
    x, shift = ctx.real("x"), ctx.real("shift")
    y = x + shift
    ctx.require(c18.in_image(ctx, "BoxCox", par, y), "shifted value in the Box-Cox range (no cut-off)")
    c18.hints_backward(ctx, "BoxCox", par, y)
    out = _quiet(ta.array_boxcox, arr(ctx, [x]), lmbda=lam, shift=shift)
    ctx.ensure("out=BoxCox._denormalize(x+shift)", ctx.eq(out[0], norm._denormalize(arr(ctx, [y]))[0]))
    ctx.ensure("out=documented-inverse-formula", ctx.eq(out[0], c18.spec_denorm(ctx, "BoxCox", par, y)))
    ctx.ensure("out>0", ctx.gt(out[0], 0))
    ctx.ensure("BoxCox.normalize(out)=x+shift", ctx.eq(norm._normalize(out)[0], y))
    d = _quiet(ta.array_boxcox, arr(ctx, [x]))
    ctx.ensure("defaults(lmbda=1,shift=0):1+x", ctx.Implies(ctx.gt(1 + x, 0), ctx.eq(d[0], 1 + x)))


@contract(P, "array.array_boxcox/cut-off", functions=[SRC + "array_boxcox"])
def boxcox_cutoff(ctx):
    """lmbda > 0: values below -1/lmbda are cut off to 0 (with a warning)"""
    lam = ctx.real("lmbda", lo=0.05, hi=3.0)
    x, shift = ctx.real("x"), ctx.real("shift")
    ctx.require(ctx.And(ctx.gt(lam, 0), ctx.Not(isclose(ctx, lam, 0))))
    ctx.require(ctx.le(lam * (x + shift) + 1, 0), "below the Box-Cox range")
    with warnings.catch_warnings(record=True) as w:
        warnings.simplefilter("always")
        out = ta.array_boxcox(arr(ctx, [x]), lmbda=lam, shift=shift)
    ctx.ensure("cut-off-to-0", ctx.eq(out[0], 0))
    ctx.ensure("warns-unless-on-the-boundary",
               ctx.Implies(ctx.lt(lam * (x + shift) + 1, 0), any("cut off" in str(v.message) for v in w)))


# ---------------------------------------------------------------------------------------
# force moments
# ---------------------------------------------------------------------------------------
@contract(P, "array.array_force_moments/sample-moments-exact", params={"n": [2, 3]},
          functions=[SRC + "array_force_moments"], bounded="n<=3 field values", timeout=40)
def force_moments(ctx, n):
    xs = ctx.reals("x", n)
    mu, var = ctx.real("mean"), ctx.real("var", pos=True)
    mu_in, var_in = mean_var(ctx, xs)
    Hv = ctx.require(ctx.gt(var_in, 0), "non-constant field")
    Hw = ctx.require(ctx.ge(var, 0))
    out = ta.array_force_moments(arr(ctx, xs), mean=mu, var=var)
    m = ctx.m
    r = m.sqrt(var / var_in)
    L0 = lemma(ctx, "out=sqrt(var/var_in).(x-mean_in)+mean", ctx.eq(out, [r * (x - mu_in) + mu for x in xs]))
    mo, vo = mean_var(ctx, list(out))
    L1 = lemma(ctx, "sample-mean(out)=mean", ctx.eq(mo, mu), using=[L0], generalize=[r])
    L2 = lemma(ctx, "sample-var(out)=r^2.var_in", ctx.eq(vo, r * r * var_in), using=[L0], generalize=[r])
    L3 = lemma(ctx, "r^2=var/var_in", ctx.eq(r * r, var / var_in), using=[Hv, Hw], generalize=[var_in])
    ctx.ensure("sample-var(out)=var", ctx.eq(vo, var), using=[L2, L3, Hv], generalize=[r, vo, var_in])
    d = ta.array_force_moments(arr(ctx, xs))
    md, vd = mean_var(ctx, list(d))
    ctx.ensure("defaults:mean-0", ctx.eq(md, 0))


# ---------------------------------------------------------------------------------------
# discrete / binary
# ---------------------------------------------------------------------------------------
def class_formula(ctx, x, out, values, thr):
    """out is the value of the class of x: (-inf, t0], (t0, t1], ..., (t_last, inf)"""
    cs = [ctx.Implies(ctx.le(x, thr[0]), ctx.eq(out, values[0])),
          ctx.Implies(ctx.gt(x, thr[-1]), ctx.eq(out, values[-1]))]
    for i in range(1, len(values) - 1):
        cs.append(ctx.Implies(ctx.And(ctx.lt(thr[i - 1], x), ctx.le(x, thr[i])), ctx.eq(out, values[i])))
    return ctx.And(*cs)


def only_given_values(ctx, out, values):
    return ctx.Or(*[ctx.eq(out, v) for v in values])


def _discrete_sampler(rng, n, **kw):
    """thresholds ascending; the field value sits exactly on a threshold in a third of the samples"""
    vals = {"v%d" % i: rng.gauss(0, 2) for i in range(n)}
    t = sorted(rng.gauss(0, 1.5) for _ in range(n - 1))
    for i, v in enumerate(t):
        vals["t%d" % i] = v + 0.01 * i
    vals["x"] = rng.choice(list(vals["t%d" % i] for i in range(n - 1))) if rng.random() < 0.34 else rng.gauss(0, 2)
    return vals


@contract(P, "array.array_discrete/explicit-thresholds", params={"n": [2, 3, 4]}, functions=[SRC + "array_discrete"],
          sampler=_discrete_sampler, nsamples=8)
def discrete_explicit(ctx, n):
    vs = ctx.reals("v", n)
    ts = ctx.reals("t", n - 1)
    x = ctx.real("x")
    for i in range(n - 2):
        ctx.require(ctx.lt(ts[i], ts[i + 1]), "thresholds ascending")
    out = ta.array_discrete(arr(ctx, [x]), list(vs), thresholds=list(ts))
    ctx.ensure("only-given-values", only_given_values(ctx, out[0], vs))
    ctx.ensure("partition-at-thresholds", class_formula(ctx, x, out[0], vs, ts))
    # exactly one class applies (the classes are a partition of the real line)
    member = [ctx.le(x, ts[0])] + [ctx.And(ctx.lt(ts[i - 1], x), ctx.le(x, ts[i])) for i in range(1, n - 1)] + [ctx.gt(x, ts[-1])]
    ctx.ensure("classes-partition-the-line",
               ctx.And(ctx.Or(*member), *[ctx.Not(ctx.And(member[i], member[j])) for i in range(n) for j in range(i)]))


@contract(P, "array.array_discrete/explicit-thresholds-as-ndarray", params={"n": [2, 3]}, functions=[SRC + "array_discrete"],
          sampler=_discrete_sampler)
def discrete_ndarray(ctx, n):
    """documented type of `thresholds`: str or numpy.ndarray"""
    vs = ctx.reals("v", n)
    ts = ctx.reals("t", n - 1)
    x = ctx.real("x")
    for i in range(n - 2):
        ctx.require(ctx.lt(ts[i], ts[i + 1]), "thresholds ascending")
    try:
        out = ta.array_discrete(arr(ctx, [x]), arr(ctx, vs), thresholds=arr(ctx, ts))
    except ValueError:
        ctx.ensure("partition-at-thresholds", False)
        return
    ctx.ensure("partition-at-thresholds", class_formula(ctx, x, out[0], vs, ts))


@contract(P, "array.array_discrete/rejects-bad-thresholds", params={"n": [3]}, functions=[SRC + "array_discrete"])
def discrete_rejects(ctx, n):
    vs = ctx.reals("v", n)
    ts = ctx.reals("t", n - 1)
    x = ctx.real("x")
    ctx.require(ctx.ge(ts[0], ts[1]), "not ascending")
    try:
        ta.array_discrete(arr(ctx, [x]), list(vs), thresholds=list(ts))
        ok = False
    except ValueError:
        ok = True
    ctx.ensure("non-ascending-thresholds-rejected", ok)
    try:
        ta.array_discrete(arr(ctx, [x]), list(vs), thresholds=list(ts[:1]))
        ok = False
    except ValueError:
        ok = True
    ctx.ensure("len(values)!=len(thresholds)+1-rejected", ok)


def sorted_spec(ctx, vs):
    """ascending order by a min/max network (spec side, no use of the code's sort)"""
    m = ctx.m
    v = list(vs)
    n = len(v)
    for i in range(n):
        for j in range(n - 1 - i):
            lo, hi = m.min(v[j], v[j + 1]), m.max(v[j], v[j + 1])
            v[j], v[j + 1] = lo, hi
    return v


@contract(P, "array.array_discrete/arithmetic-thresholds", params={"n": [2, 3]}, functions=[SRC + "array_discrete"])
def discrete_arithmetic(ctx, n):
    vs = ctx.reals("v", n)
    x = ctx.real("x")
    for i in range(n):
        for j in range(i):
            ctx.require(ctx.ne(vs[i], vs[j]), "distinct values")
    s = sorted_spec(ctx, vs)
    thr = [(s[i] + s[i + 1]) / 2 for i in range(n - 1)]      # midpoints of neighbouring sorted values
    out = ta.array_discrete(arr(ctx, [x]), arr(ctx, vs))
    ctx.ensure("only-given-values", only_given_values(ctx, out[0], vs))
    ctx.ensure("partition-at-midpoints-of-sorted-values", class_formula(ctx, x, out[0], s, thr))
    # hence: the output is a given value nearest to x
    ctx.ensure("nearest-value", ctx.And(*[ctx.le(ctx.m.abs(out[0] - x), ctx.m.abs(v - x)) for v in vs]))


def equal_quantile_consts(n):
    """erfinv(2 k/n - 1), k = 1..n-1, computed the way the code does (float64)"""
    p = np.arange(1, n) / n
    return [float(v) for v in _sps.erfinv(2 * p - 1)]


@contract(P, "array.array_discrete/equal-probability-thresholds", params={"n": [2, 3, 4], "given": [True, False]},
          functions=[SRC + "array_discrete"])
def discrete_equal(ctx, n, given):
    vs = ctx.reals("v", n)
    if given:
        mu, var = ctx.real("mean"), ctx.real("var", pos=True)
        ctx.require(ctx.gt(var, 0))
        xs = [ctx.real("x")]
        kw = dict(mean=mu, var=var)
    else:
        xs = ctx.reals("x", 2)
        mu, var = mean_var(ctx, xs)
        ctx.require(ctx.gt(var, 0), "non-constant field")
        kw = {}
    m = ctx.m
    cdf_hints(ctx, var)
    q = equal_quantile_consts(n)
    # normal quantiles at k/n: mu + sigma sqrt(2) erfinv(2 k/n - 1)
    thr = [mu + m.sqrt(var) * m.sqrt(2) * c for c in q]
    out = ta.array_discrete(arr(ctx, xs), arr(ctx, vs), thresholds="equal", **kw)
    for i, x in enumerate(xs):
        ctx.ensure("only-given-values", only_given_values(ctx, out[i], vs))
        ctx.ensure("partition-at-normal-quantiles(k/n)", class_formula(ctx, x, out[i], vs, thr))
    # the classes have probability 1/n each under N(mu, var): Phi at the k-th threshold is k/n
    probs = [0.5 * (1 + float(_sps.erf(c))) for c in q]
    ctx.ensure("classes-have-probability-1/n", all(abs(pk - (k + 1) / n) < 1e-12 for k, pk in enumerate(probs)))


# ---------------------------------------------------------------------------------------
# Field.transform / transform.field wrappers
# ---------------------------------------------------------------------------------------
symrun.CONC_FUNCS.setdefault("udn", lambda z: float(np.sinh(z)))
symrun.CONC_FUNCS.setdefault("un", lambda x: float(np.arcsinh(x)))


def make_field(ctx, process, nvals=2, mean_kind="const"):
    """a real Field over a Gaussian model with symbolic variance and nugget (sill = var + nugget),
    a stored field `field` of `nvals` symbolic values; with process=True a LogNormal normalizer and
    a constant trend are attached"""
    v, l, nug = ctx.real("mvar", pos=True), ctx.real("mlen", pos=True), ctx.real("mnug", pos=True)
    ctx.require(ctx.And(ctx.gt(v, 0), ctx.gt(l, 0), ctx.gt(nug, 0)))
    model = _quiet(gs.Gaussian, dim=1, var=v, len_scale=l, nugget=nug)
    mu = ctx.real("fmean")
    kw = {}
    if process:
        kw = dict(normalizer=gn.LogNormal, trend=ctx.real("ftrend"))
    fld = gs.field.Field(model=model, mean=mu, **kw)
    _quiet(fld.set_pos, [[float(i) for i in range(nvals)]])
    if process:     # stored values are on the output scale: trend + exp(normal value)
        zs = ctx.reals("z", nvals)
        stored = [kw["trend"] + ctx.m.exp(z) for z in zs]
    else:
        zs = ctx.reals("z", nvals)
        stored = list(zs)
    fld.post_field(arr(ctx, stored), name="field", process=False, save=True)
    return fld, model, mu, kw.get("trend"), zs, stored, v + nug


# method name -> (array function, extra keyword arguments factory, whether mean/var are passed)
def _wrapper_cases(ctx):
    return {
        "normal_to_uniform": (ta.array_to_uniform, dict(low=ctx.real("low"), high=ctx.real("high")), True),
        "normal_to_arcsin": (ta.array_to_arcsin, dict(a=None, b=None), True),
        "normal_to_uquad": (ta.array_to_uquad, dict(a=None, b=None), True),
        "zinnharvey": (ta.array_zinnharvey, dict(conn="low"), True),
        "normal_force_moments": (ta.array_force_moments, {}, True),
        "normal_to_lognormal": (ta.array_to_lognormal, {}, False),
        "boxcox": (ta.array_boxcox, dict(lmbda=0, shift=ctx.real("shift")), False),
        "discrete": (ta.array_discrete, dict(values=[ctx.real("v0"), ctx.real("v1"), ctx.real("v2")], thresholds="equal"), True),
    }


WRAP = [{"method": mth, "process": pr, "keep_mean": km}
        for mth in ("normal_to_uniform", "normal_to_arcsin", "normal_to_uquad", "zinnharvey", "normal_force_moments",
                    "normal_to_lognormal", "boxcox", "discrete")
        for (pr, km) in ((False, True), (False, False), (True, True), (True, False))]
FN_WRAP = ["transform/field.py:apply", "transform/field.py:apply_function", "transform/field.py:_pre_process",
           "transform/field.py:_post_process", "field/base.py:Field.transform", "transform/field.py:<method>"]


@contract(P, "Field.transform/wrapper-passes-mean-and-sill,pre-and-post-processes", params=WRAP, functions=FN_WRAP,
          bounded="1-2 stored field values", timeout=40)
def wrapper(ctx, method, process, keep_mean):
    m = ctx.m
    # (the U-quadratic map forks twice per value: one stored value there)
    fld, model, mu, trend, zs, stored, sill = make_field(ctx, process, nvals=1 if method == "normal_to_uquad" else 2)
    fn, extra, moments = _wrapper_cases(ctx)[method]
    if method == "normal_force_moments":
        mz, vz = mean_var(ctx, zs)
        ctx.require(ctx.gt(vz, 0), "non-constant field")
    # what the array function must be applied to, and with which mean
    if process:
        # _pre_process: remove trend, normalize, remove mean (unless keep_mean)
        data = [z if keep_mean else z - mu for z in zs]
        tmean = mu if keep_mean else 0.0
    else:
        data = list(zs)
        tmean = mu
    kw = dict(extra)
    if moments:
        kw.update(mean=tmean, var=sill)
    want = _quiet(fn, arr(ctx, data), **kw)
    if process:
        # _post_process: add mean (unless keep_mean), denormalize (exp), add trend
        want = [trend + m.exp(w if keep_mean else w + mu) for w in want]
    got = _quiet(fld.transform, method, field="field", store="transformed", process=process, keep_mean=keep_mean, **extra)
    ctx.ensure("shape", ctx.shape_eq(got, (len(zs),)))
    ctx.ensure("transform=post(array_function(pre(field);mean,var=sill))", ctx.eq(got, want))
    ctx.ensure("stored-under-given-name", "transformed" in fld.field_names and fld["transformed"] is got)
    ctx.ensure("source-field-kept", ctx.eq(fld["field"], stored))
    # the functional interface and in-place storage agree with the method
    got2 = _quiet(getattr(tf, method), fld, field="field", store=False, process=process, keep_mean=keep_mean, **extra)
    ctx.ensure("function-interface=method", ctx.eq(got2, got))
    ctx.ensure("store=False-stores-nothing", sorted(fld.field_names) == ["field", "transformed"])
    got3 = _quiet(fld.transform, method, field="transformed", store=True, process=process, keep_mean=keep_mean, **extra) \
        if method in ("normal_to_lognormal",) and not process else None
    if got3 is not None:
        ctx.ensure("store=True-overwrites-the-source-field", fld["transformed"] is got3 and ctx.eq(got3, [m.exp(w) for w in want]))


@contract(P, "transform.field.binary/two-values-split-at-divide", params=[{"process": pr, "keep_mean": km, "defaults": d}
          for (pr, km) in ((False, True), (False, False), (True, True), (True, False))
          for d in (True, False, "divide-only", "values-only")],
          functions=["transform/field.py:binary", "transform/array.py:array_discrete"], bounded="2 stored field values")
def binary(ctx, process, keep_mean, defaults):
    m = ctx.m
    fld, model, mu, trend, zs, stored, sill = make_field(ctx, process)
    tmean = 0.0 if (process and not keep_mean) else mu
    if defaults is True:    # documented: divide = mean, upper/lower = mean +- sqrt(sill)
        divide, upper, lower = tmean, tmean + m.sqrt(sill), tmean - m.sqrt(sill)
        kw = {}
    elif defaults == "values-only":     # each default is independent: custom values, divide stays the mean
        divide, upper, lower = tmean, ctx.real("upper"), ctx.real("lower")
        kw = dict(upper=upper, lower=lower)
    elif defaults == "divide-only":
        divide, upper, lower = ctx.real("divide"), tmean + m.sqrt(sill), tmean - m.sqrt(sill)
        kw = dict(divide=divide)
    else:
        divide, upper, lower = ctx.real("divide"), ctx.real("upper"), ctx.real("lower")
        kw = dict(divide=divide, upper=upper, lower=lower)
    got = _quiet(fld.transform, "binary", store="bin", process=process, keep_mean=keep_mean, **kw)
    data = [z if (not process or keep_mean) else z - mu for z in zs]
    for i, d in enumerate(data):
        lo_v, up_v = lower, upper
        if process:
            lo_v, up_v = (trend + m.exp(w if keep_mean else w + mu) for w in (lower, upper))
        ctx.ensure("lower-iff-value<=divide,else-upper",
                   ctx.And(ctx.Implies(ctx.le(d, divide), ctx.eq(got[i], lo_v)), ctx.Implies(ctx.gt(d, divide), ctx.eq(got[i], up_v))))


@contract(P, "transform.field/needs-normal-field-unless-process",
          params={"method": ["zinnharvey", "normal_force_moments", "normal_to_uniform", "normal_to_arcsin", "normal_to_uquad",
                             "binary", "discrete"], "why": ["normalizer", "trend", "callable-mean"]},
          functions=["transform/field.py:_check_for_default_normal"])
def needs_normal(ctx, method, why):
    """the transformations that use mean and variance of a NORMAL field refuse a field with a
    normalizer / trend / non-constant mean (unless process=True removes them first)"""
    v = ctx.real("mvar", pos=True)
    ctx.require(ctx.gt(v, 0))
    model = _quiet(gs.Gaussian, dim=1, var=v)
    kw = {"normalizer": dict(normalizer=gn.LogNormal), "trend": dict(trend=ctx.real("tr")),
          "callable-mean": dict(mean=lambda x: x)}[why]
    fld = gs.field.Field(model=model, **kw)
    _quiet(fld.set_pos, [[0.0, 1.0]])
    fld.post_field(arr(ctx, ctx.reals("z", 2)), process=False)
    extra = {"discrete": dict(values=[0.0, 1.0], thresholds="equal")}.get(method, {})
    try:
        _quiet(fld.transform, method, **extra)
        ok = False
    except ValueError:
        ok = True
    ctx.ensure("raises-ValueError", ok)


# --- Field.transform("discrete"): every documented form of `thresholds` reaches array_discrete ------------------
@contract(P, "Field.transform[discrete]/thresholds-given-as-str-list-or-ndarray",
          params={"form": ["arithmetic", "equal", "list", "ndarray", "tuple"], "process": [False, True]},
          functions=["transform/field.py:discrete", "transform/array.py:array_discrete"],
          bounded="native run: 4 x 4 structured field, 3 values")
def discrete_wrapper_threshold_forms(ctx, form, process):
    """`thresholds : str or numpy.ndarray` -- 'arithmetic', 'equal' or 'an array of explicitly given thresholds';
    the wrapper gives the same result as the array function on the stored field (non-processed case) and accepts
    every documented form"""
    with symrun.native():
        srf = gs.SRF(gs.Gaussian(dim=2, var=1.3, len_scale=2.0), seed=11, mean=0.4)
        srf.structured([np.arange(4.0), np.arange(4.0)])
        vals = [1.0, 2.0, 5.0]
        th = {"arithmetic": "arithmetic", "equal": "equal", "list": [-0.2, 0.9], "ndarray": np.array([-0.2, 0.9]),
              "tuple": (-0.2, 0.9)}[form]
        raised = None
        try:
            out = np.array(srf.transform("discrete", values=vals, thresholds=th, store=False, process=process), dtype=float)
        except Exception as e:      # noqa
            raised = repr(e)
            out = None
        ok = raised is None and out is not None and set(np.unique(out)) <= set(vals)
        if ok and form in ("list", "ndarray", "tuple") and not process:
            f = np.array(srf.field, dtype=float)
            want = np.where(f < -0.2, 1.0, np.where(f < 0.9, 2.0, 5.0))
            ok = bool(np.array_equal(out, want))
    ctx.ensure("accepted-and-only-given-values(partition-at-the-thresholds)", ok)


@contract(P, "array.array_discrete/output-takes-only-the-given-values-for-every-input-dtype",
          params={"dtype": ["float64", "float32", "int64", "list"], "thresholds": ["arithmetic", "explicit"]},
          functions=[SRC + "array_discrete"], bounded="native run: 6 field values, 2-3 given values")
def discrete_dtypes(ctx, dtype, thresholds):
    """'After this transformation, the field has only len(values) discrete values' -- the given values, exactly,
    whatever the dtype of the field array (an integer field must not truncate them)"""
    with symrun.native():
        raw = [0, 1, 2, 3, -2, 5]
        fld = raw if dtype == "list" else np.array(raw, dtype=dtype)
        vals = [0.5, 2.5, -1.25]
        th = "arithmetic" if thresholds == "arithmetic" else [0.5, 2.5]
        out = np.asarray(ta.array_discrete(fld, vals, thresholds=th))
        ok = set(np.unique(out).tolist()) <= set(float(np.array(v, dtype=np.float32 if dtype == "float32" else float)) for v in vals) \
            and out.shape == (6,)
        if thresholds == "explicit":
            want = [vals[0] if x <= 0.5 else (vals[1] if x <= 2.5 else vals[2]) for x in raw]
            ok = ok and bool(np.allclose(out, want))
    ctx.ensure("only-the-given-values", ok)
