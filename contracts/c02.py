r"""C02 (decided part) -- validity domains and sign conditions of the shipped covariance models.

T8 literature table (assumed mathematics, cited): in which dimensions and for which shape
parameters each family is positive definite.  Decided here:
 (a) the code's check_dim and declared optional-argument bounds (for every dimension 1-4) lie inside
     the literature validity domain;
 (b) the analytic spectral densities the generators sample from are non-negative for all wave
     numbers and all parameters inside the bounds;
 (c) cor(0) = 1 and 0 <= |cor(h)| <= 1 for the elementary families (all lags, all parameters);
 (d) lat-lon validity reduces to 3-D validity through the chordal (Yadrenko) construction (C13).
NOT decided: "radial Fourier transform non-negative => no negative eigenvalue" (Bochner) and the
positive definiteness of each family itself (rows of T8); models with numerical (Hankel) spectrum.
"""
import warnings

import numpy as np

import gstools as gs
from gsvc.contract import contract
from gsvc import symrun
from contracts.c11 import _q
from contracts.c14 import in_bound, opt_info
from contracts.c03 import model_args, install_expint_stub
from contracts.c04 import install_inc_gamma_stub

P = "C02"
INF = float("inf")

# T8: family -> (max valid dimension or None, {opt: lambda dim: (lo, hi, lo_closed, hi_closed)})
# Sources: Chiles & Delfiner 2012 (ch. 2.5), Webster & Oliver 2007, Wackernagel 2003, Matern 1960,
# Wendland 1995, Gneiting 1999/2013, Rasmussen & Williams 2006, Mueller et al. 2021.
T8 = {
    "Gaussian": (None, {}),
    "Exponential": (None, {}),
    "Stable": (None, {"alpha": lambda d: (0.0, 2.0, False, True)}),
    "Matern": (None, {"nu": lambda d: (0.0, INF, False, False)}),
    "Integral": (None, {"nu": lambda d: (0.0, INF, False, False)}),
    "Rational": (None, {"alpha": lambda d: (0.0, INF, False, False)}),
    "Cubic": (3, {}),
    "Linear": (1, {}),
    "Circular": (2, {}),
    "Spherical": (3, {}),
    "HyperSpherical": (None, {}),          # nu = (d-1)/2 is built in: valid in its own dimension
    "SuperSpherical": (None, {"nu": lambda d: ((d - 1) / 2, INF, True, False)}),
    "JBessel": (None, {"nu": lambda d: (d / 2 - 1, INF, True, False)}),
    "TPLSimple": (None, {"nu": lambda d: ((d + 1) / 2, INF, True, False)}),
    "TPLGaussian": (None, {"hurst": lambda d: (0.0, 1.0, False, False), "len_low": lambda d: (0.0, INF, True, False)}),
    "TPLExponential": (None, {"hurst": lambda d: (0.0, 1.0, False, False), "len_low": lambda d: (0.0, INF, True, False)}),
    "TPLStable": (None, {"hurst": lambda d: (0.0, 1.0, False, False), "alpha": lambda d: (0.0, 2.0, False, True),
                         "len_low": lambda d: (0.0, INF, True, False)}),
}
# Cubic: valid in R^3 (Chiles & Delfiner); the pinned tree accepted every dimension without warning -- first excluded
# here as an "observation", which was wrong: it is finding F35 (repaired in /repo: Cubic.check_dim).


def _subset(b, lit):
    lo, hi = b[0], b[1]
    typ = b[2] if len(b) == 3 else "cc"
    llo, lhi, lc, hc = lit
    ok_lo = lo > llo or (lo == llo and (lc or typ[0] == "o"))
    ok_hi = hi < lhi or (hi == lhi and (hc or typ[1] == "o"))
    return bool(ok_lo and ok_hi)


@contract(P, "models.validity-domain/inside-literature-table",
          params=[{"cls": c, "dim": d, "latlon": False, "temporal": False} for c in T8 for d in (1, 2, 3, 4)]
          + [{"cls": c, "dim": d, "latlon": True, "temporal": t} for c in T8 for d in (1, 2, 3) for t in (False, True)]
          + [{"cls": c, "dim": d, "latlon": False, "temporal": True} for c in T8 for d in (2, 3, 4)],
          functions=["covmodel/models.py:<cls>.check_dim", "covmodel/models.py:<cls>.default_opt_arg_bounds",
                     "covmodel/tpl_models.py:<cls>.default_opt_arg_bounds"])
def validity(ctx, cls, dim, latlon, temporal):
    """lat-lon models are 3-D models of the chordal distance (+1 for time): validity is judged in
    the EFFECTIVE dimension model.dim, whatever `dim` the user passed"""
    maxdim, rows = T8[cls]
    with warnings.catch_warnings(record=True) as w:
        warnings.simplefilter("always")
        mod = getattr(gs, cls)(dim=dim, latlon=latlon, temporal=temporal)
    warned = any("not appropriate" in str(x.message) for x in w)
    if latlon:
        ctx.ensure("latlon-effective-dimension", mod.dim == 3 + int(temporal))
    dim = mod.dim
    valid_dim = maxdim is None or dim <= maxdim
    ctx.ensure("accepted-without-warning=>valid-dimension[as-constructed]", warned or valid_dim)
    ctx.ensure("accepted-without-warning=>valid-dimension", (not mod.check_dim(dim)) or valid_dim)
    ctx.ensure("check_dim-consistent-with-warning", mod.check_dim(dim) == (not warned))
    bounds = mod.default_opt_arg_bounds()
    ctx.ensure("same-optional-arguments", set(bounds) == set(rows))
    for k, b in bounds.items():
        ctx.ensure("bound[%s]-inside-valid-range" % k, _subset(list(b), rows[k](dim)))
        ctx.ensure("default[%s]-inside-bound" % k, in_bound(ctx, getattr(mod, k), list(b)))
    ctx.ensure("arg_bounds-are-the-declared-ones", all(list(mod.arg_bounds[k]) == list(b) for k, b in bounds.items()))


SPEC = ["Gaussian", "Exponential", "Matern", "Integral", "HyperSpherical", "JBessel"]


@contract(P, "models.spectral_density/non-negative", params=[{"cls": c, "dim": d} for c in SPEC for d in (1, 2, 3)],
          functions=["covmodel/models.py:<cls>.spectral_density"], timeout=60)
def density_sign(ctx, cls, dim):
    install_expint_stub()
    install_inc_gamma_stub()
    v, l, n, s, opt = model_args(ctx, cls, dim)
    mod = _q(getattr(gs, cls), dim=dim, var=v, len_scale=l, nugget=n, rescale=s, **opt)
    k = ctx.real("k", lo=0.0, hi=3.0)
    ctx.require(ctx.ge(k, 0))
    if cls == "JBessel":
        # the declared bound is closed at nu = d/2 - 1 where Gamma(nu - d/2 + 1) has its pole (the code
        # caps it at 100): state the sign for the open range
        ctx.require(ctx.gt(opt["nu"], dim / 2 - 1))
    d = mod.spectral_density(np.array([k], dtype=object) if ctx.mode == "sym" else np.array([k]))
    ctx.ensure("density>=0", ctx.ge(d[0], 0))
    ctx.ensure("spectrum>=0", ctx.ge(mod.spectrum(np.array([k], dtype=object) if ctx.mode == "sym" else np.array([k]))[0], 0))
    ctx.ensure("radial-pdf>=0", ctx.ge(mod.spectral_rad_pdf([k])[0], 0))


# Matern / JBessel / hypergeometric families: |cor| <= 1 is an inequality between special functions (assumed, T8)
ELEM = ["Gaussian", "Exponential", "Stable", "Rational", "Cubic", "Linear", "Spherical", "TPLSimple", "Circular"]


@contract(P, "models.cor/normalised-correlation", params=[{"cls": c} for c in ELEM],
          functions=["covmodel/models.py:<cls>.cor", "covmodel/tpl_models.py:TPLSimple.cor"], timeout=60)
def cor_bounds(ctx, cls):
    dim = 1
    v, l, n, s, opt = model_args(ctx, cls, dim)
    mod = _q(getattr(gs, cls), dim=dim, var=v, len_scale=l, nugget=n, rescale=s, **opt)
    h = ctx.real("h", lo=0.0, hi=3.0)
    ctx.require(ctx.ge(h, 0))
    c0 = mod.cor(symrun.symarr([0.0]) if ctx.mode == "sym" else np.array([0.0]))
    ctx.ensure("cor(0)=1", ctx.eq(c0[0], 1))
    c = mod.cor(np.array([h], dtype=object) if ctx.mode == "sym" else np.array([h]))
    ctx.ensure("cor<=1", ctx.le(c[0], 1))
    ctx.ensure("cor>=-1", ctx.ge(c[0], -1))
    if cls not in ("Matern",):
        ctx.ensure("cor>=0", ctx.ge(c[0], 0))
    r = ctx.real("r", lo=0.0, hi=3.0)
    ctx.require(ctx.ge(r, 0))
    ctx.ensure("covariance(0)=var", ctx.eq(mod.covariance(0.0), v))
    ctx.ensure("variogram(0)=nugget", ctx.eq(mod.variogram(0.0), n))
    ctx.ensure("|covariance|<=var", ctx.And(ctx.le(mod.covariance(r), v), ctx.ge(mod.covariance(r), -v)))


# dispatch inside exp_int / inc_gamma (the contract E(s, x) used above is only as good as it)
from contracts import special_fn  # noqa: E402
special_fn.register(P)
