r"""C03 -- model functions are mutually consistent and match their documented closed forms.

Spec sources: the property statement (the identities between variogram / covariance /
correlation / cor and their nugget, axis, spatial and Yadrenko variants) and the LaTeX in each
class docstring, transcribed below as `RHO[cls](ctx, x, opt)` with x = s*r/l >= 0.
"""
import math
import warnings

import numpy as np

import gstools as gs
from gsvc.contract import contract
from gsvc import symrun
from gstools.tools import geometric as geo
from contracts import axioms as ax
from contracts.c14 import in_bound, opt_info, _quiet

P = "C03"
LOG2 = float(np.log(2))


# ---------------------------------------------------------------------------------------
# user classes defined through exactly one of the four defining functions (uninterpreted)
# ---------------------------------------------------------------------------------------
def _ufarr(ctx, name, x):
    m = ctx.m
    x = np.asarray(x, dtype=object)
    if x.ndim == 0:
        return m.fn(name, x.item())
    out = np.empty(x.shape, dtype=object)
    for i, v in enumerate(x.ravel().tolist()):
        out.reshape(-1)[i] = m.fn(name, v)
    return out if ctx.mode == "sym" else out.astype(float)


symrun.CONC_FUNCS["ucor"] = lambda h: float(np.exp(-abs(h) ** 1.5))
symrun.CONC_FUNCS["ucorrelation"] = lambda r: float(1.0 / (1.0 + abs(r)) ** 2)
symrun.CONC_FUNCS["ucovariance"] = lambda r: float(1.7 * np.exp(-abs(r)))
symrun.CONC_FUNCS["uvariogram"] = lambda r: float(1.3 * (1 - np.exp(-r * r)) + 0.25)


def user_class(ctx, via):
    if via == "cor":
        class U(gs.CovModel):
            def cor(self, h):
                return _ufarr(ctx, "ucor", h)
    elif via == "correlation":
        class U(gs.CovModel):
            def correlation(self, r):
                return _ufarr(ctx, "ucorrelation", r)
    elif via == "covariance":
        class U(gs.CovModel):
            def covariance(self, r):
                return _ufarr(ctx, "ucovariance", r)
    else:
        class U(gs.CovModel):
            def variogram(self, r):
                return _ufarr(ctx, "uvariogram", r)
    return U


def sym_user_model(ctx, via, dim=1, aniso=False):
    U = user_class(ctx, via)
    v, l, n, s = (ctx.real("var", pos=True), ctx.real("len", pos=True), ctx.real("nug", nonneg=True),
                  ctx.real("resc", pos=True))
    ctx.require(ctx.And(ctx.gt(v, 0), ctx.gt(l, 0), ctx.ge(n, 0), ctx.gt(s, 0)))
    kw = {}
    if aniso:
        anis = ctx.reals("anis", dim - 1, pos=True)
        for r in anis:
            ctx.require(ctx.gt(r, 0))
        kw = dict(anis=anis, angles=ctx.reals("ang", dim * (dim - 1) // 2, angle=True))
    return _quiet(U, dim=dim, var=v, len_scale=l, nugget=n, rescale=s, **kw), (v, l, n, s)


FN_INIT = ["covmodel/tools.py:_init_subclass", "covmodel/base.py:CovModel.__init_subclass__"]


@contract(P, "covmodel.tools._init_subclass/derived-functions-consistent",
          params={"via": ["cor", "correlation", "covariance", "variogram"]}, functions=FN_INIT)
def derived(ctx, via):
    mod, (v, l, n, s) = sym_user_model(ctx, via)
    r = ctx.real("r", nonneg=True)
    ctx.require(ctx.ge(r, 0))          # lags are non-negative
    vario, cov, corr = mod.variogram(r), mod.covariance(r), mod.correlation(r)
    ctx.ensure("variogram=var+nugget-covariance", ctx.eq(vario, v + n - cov))
    ctx.ensure("covariance=var*correlation", ctx.eq(cov, v * corr))
    ra = ctx.m.abs(r)
    ctx.ensure("correlation(r)=cor(rescale*r/len_scale)", ctx.eq(corr, mod.cor(s * ra / l)))
    h = ctx.real("h", nonneg=True)
    ctx.require(ctx.ge(h, 0))
    ctx.ensure("cor(h)=correlation(h*len_scale/rescale)", ctx.eq(mod.cor(h), mod.correlation(h * l / s)))
    ctx.ensure("len_rescaled", ctx.eq(mod.len_rescaled * s, l))
    if via == "cor":
        ctx.ensure("defining-function-used", ctx.eq(mod.cor(h), ctx.m.fn("ucor", h)))
    elif via == "correlation":
        ctx.ensure("defining-function-used", ctx.eq(corr, ctx.m.fn("ucorrelation", r)))
    elif via == "covariance":
        ctx.ensure("defining-function-used", ctx.eq(cov, ctx.m.fn("ucovariance", r)))
    else:
        ctx.ensure("defining-function-used", ctx.eq(vario, ctx.m.fn("uvariogram", r)))


@contract(P, "CovModel.vario_nugget/differs-only-at-zero",
          params={"via": ["cor", "variogram"]},
          functions=["covmodel/base.py:CovModel.vario_nugget", "covmodel/base.py:CovModel.cov_nugget"])
def nugget_variants(ctx, via):
    mod, (v, l, n, s) = sym_user_model(ctx, via)
    r = ctx.real("r")
    zero = ctx.le(ctx.m.abs(r), 1e-8)        # np.isclose(r, 0): |r - 0| <= atol + rtol*|0|
    vn = mod.vario_nugget(r)
    cn = mod.cov_nugget(r)
    ra = ctx.m.abs(r)
    ctx.ensure("vario_nugget", ctx.And(ctx.Implies(zero, ctx.eq(vn, 0)),
                                       ctx.Implies(ctx.Not(zero), ctx.eq(vn, mod.variogram(ra)))))
    ctx.ensure("cov_nugget", ctx.And(ctx.Implies(zero, ctx.eq(cn, v + n)),
                                     ctx.Implies(ctx.Not(zero), ctx.eq(cn, mod.covariance(ra)))))
    ctx.ensure("sill=var+nugget", ctx.eq(mod.sill, v + n))


@contract(P, "CovModel.vario_axis/transformed-lag",
          params=[{"dim": d, "axis": a} for d in (1, 2, 3) for a in range(d)],
          functions=["covmodel/base.py:CovModel.vario_axis", "covmodel/base.py:CovModel.cov_axis",
                     "covmodel/base.py:CovModel.cor_axis"])
def axis_variants(ctx, dim, axis):
    mod, (v, l, n, s) = sym_user_model(ctx, "cor", dim=dim, aniso=True)
    r = ctx.real("r")
    lag = ctx.m.abs(r) if axis == 0 else ctx.m.abs(r) / mod.anis[axis - 1]
    ctx.ensure("vario_axis", ctx.eq(mod.vario_axis(r, axis), mod.variogram(lag)))
    ctx.ensure("cov_axis", ctx.eq(mod.cov_axis(r, axis), mod.covariance(lag)))
    ctx.ensure("cor_axis", ctx.eq(mod.cor_axis(r, axis), mod.correlation(lag)))
    # along the axis the model has length scale len_scale * anis[axis-1]
    ctx.ensure("len_scale_vec", ctx.eq(mod.len_scale_vec[axis], l if axis == 0 else l * mod.anis[axis - 1]))


@contract(P, "CovModel.cov_spatial/isotropic-function-of-isometrised-lag", params={"dim": [1, 2, 3]},
          functions=["covmodel/base.py:CovModel.cov_spatial", "covmodel/base.py:CovModel.vario_spatial",
                     "covmodel/base.py:CovModel.cor_spatial", "covmodel/base.py:CovModel._get_iso_rad"],
          timeout=60)
def spatial_variants(ctx, dim):
    mod, (v, l, n, s) = sym_user_model(ctx, "cor", dim=dim, aniso=True)
    pos = ctx.reals("p", dim)
    # documented transformation: rotate back, divide transversal axes by the ratios
    R = geo.matrix_rotate(dim, mod.angles)
    y = R.T @ np.array(pos, dtype=object)
    y = [y[0]] + [y[i] / mod.anis[i - 1] for i in range(1, dim)]
    rad = ctx.m.sqrt(sum(c * c for c in y))
    p = [[x] for x in pos]
    iso = mod.isometrize(p)[:, 0]
    L0 = ctx.lemma("isometrize=S^-1.R^T.pos", ctx.eq(iso, np.array(y, dtype=object)))
    L1 = ctx.lemma("squared-radius", ctx.eq(sum(c * c for c in iso), sum(c * c for c in y)))
    L2 = ctx.lemma("iso-radius", ctx.eq(mod._get_iso_rad(p)[0], rad), using=[L1])
    ctx.ensure("cov_spatial", ctx.eq(mod.cov_spatial(p), [mod.covariance(rad)]), using=[L2])
    ctx.ensure("vario_spatial", ctx.eq(mod.vario_spatial(p), [mod.variogram(rad)]), using=[L2])
    ctx.ensure("cor_spatial", ctx.eq(mod.cor_spatial(p), [mod.correlation(rad)]), using=[L2])


@contract(P, "CovModel.cov_spatial/main-axis-has-scale-len*anis", params=[{"dim": d, "axis": a} for d in (2, 3) for a in range(d)],
          functions=["covmodel/base.py:CovModel.cov_spatial", "covmodel/base.py:CovModel.main_axes"],
          timeout=60)
def spatial_main_axis(ctx, dim, axis):
    """C12 link: along the i-th rotated main axis the model has length scale len*anis[i-1]"""
    mod, (v, l, n, s) = sym_user_model(ctx, "cor", dim=dim, aniso=True)
    t = ctx.real("t")
    ax_i = mod.main_axes()[axis]
    pos = [[t * c] for c in ax_i]
    lag = ctx.m.abs(t) if axis == 0 else ctx.m.abs(t) / mod.anis[axis - 1]
    iso = mod.isometrize(pos)
    e = np.zeros(dim)
    e[axis] = 1.0
    L = ctx.lemma("isometrize(t*axis_i)=t/anis*e_i", ctx.eq(iso[:, 0], (t if axis == 0 else t / mod.anis[axis - 1]) * e))
    rad = mod._get_iso_rad(pos)[0]
    L2 = ctx.lemma("iso-radius=|t|/anis", ctx.eq(rad, lag))
    ctx.ensure("cov_spatial(t*axis_i)=covariance(t/anis_i)", ctx.eq(mod.cov_spatial(pos), [mod.covariance(lag)]),
               using=[L2])


@contract(P, "CovModel.vario_yadrenko/chordal-lag", functions=["covmodel/base.py:CovModel.vario_yadrenko",
          "covmodel/base.py:CovModel.cov_yadrenko", "covmodel/base.py:CovModel.cor_yadrenko"])
def yadrenko_variants(ctx):
    class U(gs.CovModel):
        def cor(self, h):
            return _ufarr(ctx, "ucor", h)
    v, l, R = ctx.real("var", pos=True), ctx.real("len", pos=True), ctx.real("R", pos=True)
    ctx.require(ctx.And(ctx.gt(v, 0), ctx.gt(l, 0), ctx.gt(R, 0)))
    mod = _quiet(U, latlon=True, var=v, len_scale=l, geo_scale=R)
    z = ctx.real("zeta", nonneg=True)
    lag = 2 * R * ctx.m.sin(z / (2 * R))
    ctx.ensure("vario_yadrenko", ctx.eq(mod.vario_yadrenko(z), mod.variogram(lag)))
    ctx.ensure("cov_yadrenko", ctx.eq(mod.cov_yadrenko(z), mod.covariance(lag)))
    ctx.ensure("cor_yadrenko", ctx.eq(mod.cor_yadrenko(z), mod.correlation(lag)))


# ---------------------------------------------------------------------------------------
# documented closed forms (transcribed from the class docstrings); x = s*r/l >= 0
# ---------------------------------------------------------------------------------------
def rho_gaussian(ctx, x, o, dim):
    return ctx.m.exp(-(x * x))


def rho_exponential(ctx, x, o, dim):
    return ctx.m.exp(-x)


def rho_stable(ctx, x, o, dim):
    return ctx.m.exp(-ctx.m.pow(x, o["alpha"]))


def rho_matern(ctx, x, o, dim):
    m, nu = ctx.m, o["nu"]
    if ctx.mode == "conc":
        if nu > 20.0:
            return math.exp(-(x / 2) ** 2)
        if x <= 0:
            return 1.0
        y = math.sqrt(nu) * x
        return 2 ** (1 - nu) / symrun.CONC_FUNCS["gamma"](nu) * y ** nu * symrun.CONC_FUNCS["kv"](nu, y)
    y = m.sqrt(nu) * x
    general = m.pow(2, 1 - nu) / m.fn("gamma", nu) * m.pow(y, nu) * m.fn("kv", nu, y)
    return m.ite(ctx.gt(nu, 20.0), m.exp(-((x / 2) * (x / 2))), m.ite(ctx.gt(x, 0), general, 1))


def rho_rational(ctx, x, o, dim):
    return ctx.m.pow(1 + x * x / o["alpha"], -o["alpha"])


def rho_cubic(ctx, x, o, dim):
    p = 1 - 7 * x ** 2 + 35 / 4 * x ** 3 - 7 / 2 * x ** 5 + 3 / 4 * x ** 7
    return ctx.m.ite(ctx.lt(x, 1), p, 0)


def rho_linear(ctx, x, o, dim):
    return ctx.m.ite(ctx.lt(x, 1), 1 - x, 0)


def rho_circular(ctx, x, o, dim):
    m = ctx.m
    if ctx.mode == "conc":
        return 2 / math.pi * (math.acos(x) - x * math.sqrt(1 - x * x)) if x < 1 else 0.0
    return m.ite(ctx.lt(x, 1), 2 / m.pi * (m.arccos(x) - x * m.sqrt(1 - x * x)), 0)


def rho_spherical(ctx, x, o, dim):
    return ctx.m.ite(ctx.lt(x, 1), 1 - 3 / 2 * x + 1 / 2 * x ** 3, 0)


def rho_hyperspherical(ctx, x, o, dim):
    m = ctx.m
    nu = (dim - 1) / 2
    fac = 1.0 / m.fn("hyp2f1", 0.5, -nu, 1.5, 1)     # a concrete number for fixed dimension
    if ctx.mode == "conc":
        return 1 - x * m.fn("hyp2f1", 0.5, -nu, 1.5, x * x) * fac if x < 1 else 0.0
    return m.ite(ctx.lt(x, 1), 1 - x * m.fn("hyp2f1", 0.5, -nu, 1.5, x * x) * fac, 0)


def rho_superspherical(ctx, x, o, dim):
    m = ctx.m
    nu = o["nu"]
    f1 = m.fn("hyp2f1", 0.5, -nu, 1.5, 1.0)
    # 2F1(1/2,-nu;3/2;1) = sqrt(pi) Gamma(nu+1) / (2 Gamma(nu+3/2)) > 0 for nu > -1
    ctx.hint(ctx.gt(f1, 0), "2F1(1/2,-nu;3/2;1)>0 for nu>-1")
    if ctx.mode == "conc":
        return 1 - x * m.fn("hyp2f1", 0.5, -nu, 1.5, x * x) / f1 if x < 1 else 0.0
    return m.ite(ctx.lt(x, 1), 1 - x * m.fn("hyp2f1", 0.5, -nu, 1.5, x * x) / f1, 0)


def rho_jbessel(ctx, x, o, dim):
    m = ctx.m
    nu = o["nu"]
    if ctx.mode == "conc":
        return float(m.fn("gamma", nu + 1) * m.fn("jv", nu, x) / (x / 2) ** nu) if x > 1e-8 else 1.0
    # the documented formula has the removable singularity rho(0) = 1
    return m.ite(ctx.le(x, 1e-8), 1, m.fn("gamma", nu + 1) * m.fn("jv", nu, x) / m.pow(x / 2, nu))


def rho_tplsimple(ctx, x, o, dim):
    m = ctx.m
    if ctx.mode == "conc":
        return (1 - x) ** o["nu"] if x < 1 else 0.0
    return m.ite(ctx.lt(x, 1), m.pow(1 - x, o["nu"]), 0)


def rho_integral(ctx, x, o, dim):
    nu = o["nu"]
    return nu / 2 * ctx.m.fn("expint", 1 + nu / 2, x * x)


RHO = {"Gaussian": rho_gaussian, "Exponential": rho_exponential, "Stable": rho_stable,
       "Matern": rho_matern, "Rational": rho_rational, "Cubic": rho_cubic, "Linear": rho_linear,
       "Circular": rho_circular, "Spherical": rho_spherical, "HyperSpherical": rho_hyperspherical,
       "SuperSpherical": rho_superspherical, "JBessel": rho_jbessel, "TPLSimple": rho_tplsimple,
       "Integral": rho_integral}

DEFAULT_RESCALE = {"Gaussian": math.sqrt(math.pi) / 2}

# the generalised exponential integral E_s(x) of the docstrings: tools.special.exp_int is
# replaced by its contract (uninterpreted E(s, x)) when called with symbolic arguments
import scipy.special as _sps


def _expint_conc(s, x):
    from gstools.tools.special import exp_int as _real
    return float(np.asarray(_REAL_EXP_INT(s, np.array([x], dtype=float)))[0])


_REAL_EXP_INT = None


def install_expint_stub():
    global _REAL_EXP_INT
    import gstools.tools.special as sp
    import gstools.covmodel.models as mods
    if _REAL_EXP_INT is not None:
        return
    _REAL_EXP_INT = sp.exp_int

    def exp_int(s, x):
        if symrun.symbolic_active() and (symrun.is_sym(s) or symrun.is_sym(x)):
            return symrun._elementwise(lambda a, b: symrun.uf("expint", a, b), s, x)
        return _REAL_EXP_INT(s, x)
    sp.exp_int = exp_int
    mods.exp_int = exp_int
    symrun.CONC_FUNCS["expint"] = _expint_conc
    symrun.SHIM_LOG.append("gstools.tools.special.exp_int -> contract E(s,x) (uninterpreted) for symbolic arguments")


def model_args(ctx, cls, dim, latlon=False, temporal=False):
    ob, mdim = opt_info(cls, dim, latlon, temporal)
    v, l, n, s = (ctx.real("var", pos=True), ctx.real("len", pos=True), ctx.real("nug", nonneg=True),
                  ctx.real("resc", pos=True))
    ctx.require(ctx.And(ctx.gt(v, 0), ctx.gt(l, 0), ctx.ge(n, 0), ctx.gt(s, 0)))
    opt = {}
    for k, b in ob.items():
        lo = b[0] if b[0] != -np.inf else -5.0
        hi = b[1] if b[1] != np.inf else lo + 5.0
        opt[k] = ctx.real(k, lo=lo + 0.02 * (hi - lo), hi=hi - 0.02 * (hi - lo))
        ctx.require(in_bound(ctx, opt[k], b))
    return v, l, n, s, opt


def _matern_hints(ctx, nu, h):
    """the code evaluates the Matern formula in log space"""
    m = ctx.m
    y = m.sqrt(nu) * h
    hs = [ctx.hint(ctx.eq(m.pow(2, 1 - nu), m.exp((1 - nu) * LOG2)), "2^a=exp(a log 2)"),
          ctx.hint(ctx.eq(m.fn("gamma", nu), m.exp(m.fn("loggamma", nu))), "Gamma(x)=exp(loggamma x), x>0"),
          ax.pow_def(ctx, y, nu)]
    a, b, c = (1 - nu) * LOG2, -m.fn("loggamma", nu), nu * m.log(y)
    hs.append(ctx.hint(ctx.eq(m.exp(a + b + c), m.exp(a) * m.exp(b) * m.exp(c)), "exp(a+b+c)=exp a exp b exp c"))
    hs.append(ctx.hint(ctx.eq(m.exp(b) * m.exp(-b), 1), "exp(-b)exp(b)=1"))
    return hs


@contract(P, "models.cor/documented-closed-form",
          params=[{"cls": c, "dim": d} for c in RHO for d in ((1, 2, 3) if c in ("HyperSpherical", "SuperSpherical", "JBessel", "TPLSimple") else (1,))],
          functions=["covmodel/models.py:<cls>.cor", "covmodel/tpl_models.py:TPLSimple.cor",
                     "covmodel/tools.py:_init_subclass.correlation_from_cor"], timeout=60)
def closed_form(ctx, cls, dim):
    install_expint_stub()
    v, l, n, s, opt = model_args(ctx, cls, dim)
    mod = _quiet(getattr(gs, cls), dim=dim, var=v, len_scale=l, nugget=n, rescale=s, **opt)
    r = ctx.real("r", nonneg=True)
    ctx.require(ctx.ge(r, 0))
    x = s * r / l
    if cls == "Matern":
        _matern_hints(ctx, opt["nu"], r / (l / s))
    rho = RHO[cls](ctx, x, opt, dim)
    got = mod.correlation(r)
    ctx.ensure("correlation=rho(s*r/l)", ctx.eq(got, rho))
    ctx.ensure("variogram=var*(1-rho)+nugget", ctx.eq(mod.variogram(r), v * (1 - rho) + n))
    ctx.ensure("covariance=var*rho", ctx.eq(mod.covariance(r), v * rho))
    ctx.ensure("cor(h)=rho(h)", ctx.eq(mod.cor(x), rho))


GEO_CFG = {"latlon": dict(latlon=True), "latlon+time": dict(latlon=True, temporal=True),
           "2d+time": dict(spatial_dim=2, temporal=True)}


@contract(P, "models.cor/documented-closed-form[geographic-and-temporal-models]",
          params=[{"cls": c, "cfg": g} for c in ("HyperSpherical", "SuperSpherical", "JBessel", "TPLSimple") for g in GEO_CFG],
          functions=["covmodel/models.py:<cls>.cor", "covmodel/tpl_models.py:TPLSimple.cor"], timeout=60)
def closed_form_geo(ctx, cls, cfg):
    """the closed forms with a dimension parameter d use the MODEL dimension `dim`: 3 for lat-lon models
    (the covariance acts on chordal distances in R^3; positive definiteness on the sphere needs d = 3), one
    more with a time axis -- not the number of coordinates the user passes (`field_dim`)"""
    kw = GEO_CFG[cfg]
    dim_arg = 3 if cfg == "2d+time" else 2          # `dim` counts the time axis for non-geographic models
    v, l, n, s, opt = model_args(ctx, cls, dim_arg, latlon=kw.get("latlon", False), temporal=kw.get("temporal", False))
    mod = _quiet(getattr(gs, cls), var=v, len_scale=l, nugget=n, rescale=s, **kw, **opt)
    want_dim = {"latlon": 3, "latlon+time": 4, "2d+time": 3}[cfg]
    ctx.ensure("model-dimension", mod.dim == want_dim)
    r = ctx.real("r", nonneg=True)
    ctx.require(ctx.ge(r, 0))
    x = s * r / l
    rho = RHO[cls](ctx, x, opt, want_dim)
    ctx.ensure("correlation=rho_d(s*r/l),d=model-dimension", ctx.eq(mod.correlation(r), rho))
    ctx.ensure("cor(h)=rho_d(h)", ctx.eq(mod.cor(x), rho))


@contract(P, "models.cor/documented-closed-form[thorough]",
          params=[{"cls": c, "dim": d} for c in RHO for d in (2, 3)
                  if c not in ("HyperSpherical", "SuperSpherical", "JBessel", "TPLSimple")],
          functions=["covmodel/models.py:<cls>.cor"], timeout=60, tiers=("thorough",))
def closed_form_thorough(ctx, cls, dim):
    closed_form(ctx, cls, dim)


@contract(P, "models.default_rescale/documented", params={"cls": list(RHO) + ["TPLGaussian", "TPLExponential", "TPLStable"]},
          functions=["covmodel/models.py:<cls>.default_rescale"])
def default_rescale(ctx, cls):
    mod = _quiet(getattr(gs, cls), dim=1)
    if cls == "Gaussian":
        ctx.ensure("s=sqrt(pi)/2", ctx.eq(mod.rescale, ctx.m.sqrt(ctx.m.pi) / 2))
    else:
        ctx.ensure("s=1", ctx.eq(mod.rescale, 1))


# --- truncated power law models ---------------------------------------------------------
TPL_ALPHA = {"TPLGaussian": 2, "TPLExponential": 1, "TPLStable": None}


@contract(P, "tpl_models.correlation/documented-superposition",
          params=[{"cls": c, "low": lw} for c in TPL_ALPHA for lw in ("zero", "positive")],
          functions=["covmodel/tpl_models.py:<cls>.correlation", "covmodel/tpl_models.py:TPLCovModel.var_factor",
                     "tools/special.py:tplstable_cor"], timeout=90)
def tpl_closed_form(ctx, cls, low):
    install_expint_stub()
    m = ctx.m
    v, l, n, s = (ctx.real("var", pos=True), ctx.real("len", pos=True), ctx.real("nug", nonneg=True),
                  ctx.real("resc", pos=True))
    H = ctx.real("hurst", lo=0.15, hi=0.95)
    ctx.require(ctx.And(ctx.gt(v, 0), ctx.gt(l, 0), ctx.ge(n, 0), ctx.gt(s, 0), ctx.gt(H, 0.1), ctx.lt(H, 1)))
    opt = {"hurst": H}
    if cls == "TPLStable":
        alpha = ctx.real("alpha", lo=0.3, hi=2.0)
        ctx.require(ctx.And(ctx.gt(alpha, 0), ctx.le(alpha, 2)))
        opt["alpha"] = alpha
    else:
        alpha = TPL_ALPHA[cls]
    if low == "zero":
        ll = 0.0
    else:
        ll = ctx.real("len_low", lo=0.2, hi=3.0)
        ctx.require(ctx.gt(ll, 1e-7 * s + 1e-8))     # not np.isclose(len_low_rescaled, 0)
        ctx.require(ctx.gt(ll / s, 1e-8))
    opt["len_low"] = ll
    mod = _quiet(getattr(gs, cls), dim=1, var=v, len_scale=l, nugget=n, rescale=s, **opt)
    r = ctx.real("r", lo=0.05, hi=4.0)
    ctx.require(ctx.gt(r, 0))
    lup, llow = (ll + l) / s, ll / s

    def E(scale):
        z = r / scale
        ctx.require(ctx.gt(z, 1e-8))        # tplstable_cor clips |r/len| <= 1e-8 to 0 (rho = 1)
        arg = z * z if alpha == 2 else (z if alpha == 1 else m.pow(z, alpha))
        return m.fn("expint", 1 + 2 * H / alpha, arg)
    if low == "zero":
        rho = (2 * H / alpha) * E(lup)
    else:
        pu, pl = m.pow(lup, 2 * H), m.pow(llow, 2 * H)
        rho = (2 * H / alpha) * (pu * E(lup) - pl * E(llow)) / (pu - pl)
    ctx.ensure("correlation=documented", ctx.eq(mod.correlation(r), rho))
    ctx.ensure("variogram=var*(1-rho)+nugget", ctx.eq(mod.variogram(r), mod.var * (1 - rho) + n))
    # first clause of the statement, for the classes that define BOTH functions themselves
    ctx.ensure("correlation(r)=cor(rescale*r/len_scale)", ctx.eq(mod.cor(s * r / l), rho))
    # sigma^2 = C (l_up^2H - l_low^2H) / (2H): the variance follows the intensity C = var_raw
    ctx.ensure("var=C*(lup^2H-llow^2H)/2H",
               ctx.eq(mod.var, mod.var_raw * (m.pow(lup, 2 * H) - (m.pow(llow, 2 * H) if low != "zero" else 0)) / (2 * H)))


# --- integral scale -----------------------------------------------------------------------
def iscale_gaussian(ctx, lr, o): return lr * ctx.m.sqrt(ctx.m.pi) / 2
def iscale_exponential(ctx, lr, o): return lr
def iscale_stable(ctx, lr, o): return lr * ctx.m.fn("gamma", 1 + 1 / o["alpha"])
def iscale_matern(ctx, lr, o):
    # the integral of the correlation the model HAS: for nu > 20 that is the Gaussian limit exp(-(h/2)^2) (rho_matern)
    m, nu = ctx.m, o["nu"]
    general = lr * m.pi / m.sqrt(nu) / m.fn("beta", nu, 0.5)
    limit = lr * m.sqrt(m.pi)
    if ctx.mode == "conc":
        return limit if float(nu) > 20.0 else general
    return m.ite(ctx.gt(nu, 20.0), limit, general)
def iscale_integral(ctx, lr, o): return lr * o["nu"] * ctx.m.sqrt(ctx.m.pi) / (2 * o["nu"] + 2)


def iscale_rational(ctx, lr, o):
    m, a = ctx.m, o["alpha"]
    return lr * m.sqrt(m.pi * a) * m.fn("gamma", a - 0.5) / m.fn("gamma", a) / 2


# T8 table: integral of the documented correlation over [0, inf) in units of l/s
ISCALE = {"Gaussian": iscale_gaussian, "Exponential": iscale_exponential, "Stable": iscale_stable,
          "Matern": iscale_matern, "Integral": iscale_integral, "Rational": iscale_rational}


@contract(P, "models.calc_integral_scale/tabulated-closed-form", params={"cls": list(ISCALE)},
          functions=["covmodel/models.py:<cls>.calc_integral_scale", "covmodel/base.py:CovModel.integral_scale"])
def integral_scale(ctx, cls):
    v, l, n, s, opt = model_args(ctx, cls, 1)
    if cls == "Rational":
        ctx.require(ctx.gt(opt["alpha"], 0.5))
    mod = _quiet(getattr(gs, cls), dim=1, var=v, len_scale=l, nugget=n, rescale=s, **opt)
    got = mod.calc_integral_scale()
    ctx.ensure("closed-form", ctx.eq(got, ISCALE[cls](ctx, l / s, opt)))
    ctx.ensure("property=calc", ctx.eq(mod.integral_scale, got))
    # homogeneous of degree one in the length scale (what the integral_scale setter relies on)
    k = ctx.real("k", pos=True)
    ctx.require(ctx.gt(k, 0))
    mod2 = _quiet(getattr(gs, cls), dim=1, var=v, len_scale=k * l, nugget=n, rescale=s, **opt)
    ctx.ensure("homogeneous-degree-1", ctx.eq(mod2.calc_integral_scale(), k * got))
    ctx.ensure("positive", ctx.gt(got, 0))
    # the reported integral scale follows later parameter changes (no stale value)
    s2 = ctx.real("resc2", pos=True)
    ctx.require(ctx.gt(s2, 0))
    mod.rescale = s2
    ctx.ensure("after-rescale-change", ctx.And(ctx.eq(mod.integral_scale, ISCALE[cls](ctx, l / s2, opt)),
                                               ctx.eq(mod.integral_scale_vec[0], ISCALE[cls](ctx, l / s2, opt))))
    mod.len_scale = k * l
    ctx.ensure("after-len_scale-change", ctx.eq(mod.integral_scale, ISCALE[cls](ctx, k * l / s2, opt)))
    if cls in ("Gaussian", "Exponential", "Stable"):
        _quiet(setattr, mod, "dim", 3)
        ctx.ensure("after-dim-change", ctx.eq(mod.integral_scale, ISCALE[cls](ctx, k * l / s2, opt)))


@contract(P, "covmodel.tools.percentile_scale/root-of-1-correlation-per",
          functions=["covmodel/tools.py:percentile_scale", "covmodel/base.py:CovModel.percentile_scale"])
def percentile(ctx):
    """percentile_scale hands scipy.optimize.root exactly f(x) = 1 - correlation(x) - per, i.e. the
    lag at which the variogram (without nugget) reaches the fraction `per` of the variance, and
    returns the root found (root-finder accuracy itself: no contract, residue)"""
    import gstools.covmodel.tools as ct
    mod, (v, l, n, s) = sym_user_model(ctx, "cor")
    per = ctx.real("per", lo=0.05, hi=0.95)
    ctx.require(ctx.And(ctx.gt(per, 0), ctx.lt(per, 1)))
    seen = {}
    xr = ctx.real("xroot", pos=True)
    real_root = ct.root

    def fake_root(fun, x0, *a, **k):
        seen["fun"], seen["x0"] = fun, x0
        return {"x": [xr]}
    ct.root = fake_root
    try:
        res = mod.percentile_scale(per)
    finally:
        ct.root = real_root
    ctx.ensure("returns-root", ctx.eq(res, xr))
    x = ctx.real("x", pos=True)
    ctx.ensure("root-function", ctx.eq(seen["fun"](x), 1 - mod.correlation(x) - per))
    ctx.ensure("root-function=variogram-fraction",
               ctx.eq(seen["fun"](x) * v, (mod.variogram(x) - n) - per * v))
    ctx.ensure("start=per*len/rescale", ctx.eq(seen["x0"], per * l / s))


# dispatch inside exp_int / inc_gamma (the contract E(s, x) used above is only as good as it)
from contracts import special_fn  # noqa: E402
special_fn.register(P)


# --- the numerically computed integral scale (scipy quad) of the compact-support models at every length scale -------
COMPACT_I = {"Linear": 0.5, "Spherical": 0.375, "Cubic": 1 - 7 / 3 + 35 / 16 - 7 / 12 + 3 / 32}


@contract(P, "CovModel.calc_integral_scale[quadrature]/compact-support-models-at-every-length-scale",
          params=[{"cls": c, "len_scale": l} for c in COMPACT_I for l in (1.0, 1e2, 1e4, 1e5, 1e6)],
          functions=["covmodel/base.py:CovModel.calc_integral_scale"],
          bounded="native run: three compact-support classes x five length scales (metre-sized coordinates give length "
                  "scales of 1e4 .. 1e6); reference: closed-form integral of the documented polynomial; tolerance 1e-6 relative")
def compact_integral_scale(ctx, cls, len_scale):
    """'the reported integral scale is the integral of the correlation over all lags' -- for models without a closed
    form the value comes from scipy.integrate.quad over [0, inf): bounded stand-in for that numerical step"""
    with symrun.native():
        mod = getattr(gs, cls)(dim=1, len_scale=len_scale)
        got = float(mod.integral_scale)
        want = COMPACT_I[cls] * len_scale / float(mod.rescale)
    if ctx.mode == "conc":
        ctx.results["got/want"] = repr((got, want))
    ctx.ensure("integral_scale=closed-form-integral", abs(got - want) <= 1e-6 * want)
