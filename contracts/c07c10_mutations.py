"""Mutation corpus for validating the C07 / C10 contracts (scratch copies only; never touches /repo).
usage: .venv312/bin/python contracts/c07c10_mutations.py C07|C10 [name-substring ...]   (env MUT_BASE=<src dir>, default /repo/src)"""
import os, shutil, subprocess, sys, time, json, re

def run(prop, name, edits, extra_args=()):
    root = "/tmp/gsvc_mut_%s_%s" % (prop, name)
    shutil.rmtree(root, ignore_errors=True)
    os.makedirs(root)
    shutil.copytree(os.environ.get("MUT_BASE", "/repo/src"), root + "/src")
    for (rel, old, new) in edits:
        p = os.path.join(root, "src/gstools", rel)
        s = open(p).read()
        if isinstance(old, str):
            old, new = [old], [new]
        for o, n in zip(old, new):          # alternatives: the first pattern present in the base tree
            if s.count(o) >= 1:
                s = s.replace(o, n, 1)
                break
        else:
            raise AssertionError("pattern not found in %s: %r" % (rel, old[0][:60]))
        open(p, "w").write(s)
    t0 = time.time()
    env = dict(os.environ, GSTOOLS_REPO=root)
    r = subprocess.run(["./check", prop] + list(extra_args), cwd="/verif", env=env, capture_output=True, text=True)
    dt = time.time() - t0
    viol = [l for l in r.stdout.splitlines() if l.startswith("VIOLATION")]
    first = ""
    if viol:
        m = re.search(r"replay=(\S+)", viol[0])
        try:
            first = json.load(open(m.group(1)))["obligation"]
        except Exception:
            first = viol[0][:120]
    summ = [l for l in r.stdout.splitlines() if l.startswith(prop + " tier")]
    print("%-28s exit=%d violations=%d wall=%.0fs first=%s" % (name, r.returncode, len(viol), dt, first), flush=True)
    if r.returncode not in (0, 1):
        print("   ", (summ or [""])[0], r.stderr[-600:].replace("\n", " | "))
    shutil.rmtree(root, ignore_errors=True)
    return r.returncode, len(viol), dt, first


CS = "field/cond_srf.py"; KB = "krige/base.py"; FB = "field/base.py"; F = "covmodel/fit.py"
C07 = [
 ("M01-sqrt-dropped", [(CS, "            var_scale = np.sqrt(krige_var / self.model.var)\n            nugget = 0", "            var_scale = krige_var / self.model.var\n            nugget = 0")]),
 ("M02-reuse-ignores-deleted", [(CS, "            not info[\"deleted\"]\n            and name[2] in self.field_names", "            name[2] in self.field_names")]),
 ("M03-set_pos-keeps-fields", [(FB, "            self.delete_fields()\n            info_ret[\"deleted\"] = True", "            info_ret[\"deleted\"] = True")]),
 ("M03b-set_pos-never-deletes", [(FB, "        if old_type != self.mesh_type or not _pos_equal(old_pos, self.pos):", "        if False:")]),
 ("M04-set_condition-keeps-cache", [(KB, "        # fields stored for the previous kriging setup are outdated now\n        self.delete_fields()\n", "")]),
 ("M05-krige_var-from-prev-call", [(CS, "            rawkrige, krige_var = self.krige(**kwargs)\n", "            rawkrige, krige_var = self.krige(**kwargs)\n            krige_var, self._last_kv = getattr(self, \"_last_kv\", krige_var), krige_var\n")]),
 ("M06-mean-setter-keeps-cache", [(KB, "        Field.mean.fset(self, mean)\n        self.delete_fields()", "        Field.mean.fset(self, mean)")]),
 ("M07-model-setter-no-refresh", [(KB, "        if getattr(self, \"_cond_val\", None) is not None:\n            self.set_condition()", "        pass")]),
 ("M08-pos-equal-allclose", [(FB, "np.array_equal(p1, p2)", "np.allclose(p1, p2)")]),
 ("M09-nugget-split-wrong", [(CS, "nug_scale = np.sqrt((krige_var - var_scale) / self.model.nugget)", "nug_scale = np.sqrt(krige_var / self.model.nugget)")]),
 ("M10-CondSRF.set_pos-keeps-krige", [(CS, "        if info_ret[\"deleted\"]:\n            self.krige.delete_fields()", "        if False:\n            self.krige.delete_fields()")]),
 ("M11-raw_krige-not-restored", [(CS, "        if not reuse:\n            self.post_field(rawkrige, name[2], False, save[2])", "        if not reuse and name[2] not in self.field_names:\n            self.post_field(rawkrige, name[2], False, save[2])")]),
 ("M12-exact-uses-covariance", [(KB, "cf = self.model.cov_nugget if self.exact else self.model.covariance", "cf = self.model.covariance")]),
 ("R01-reorder-reuse-condition", [(CS, "            not info[\"deleted\"]\n            and name[2] in self.field_names\n            and krige_name[1] in self.krige.field_names", "            krige_name[1] in self.krige.field_names\n            and name[2] in self.field_names\n            and not info[\"deleted\"]")]),
 ("R02-sqrt-as-power", [(CS, "            var_scale = np.sqrt(krige_var / self.model.var)\n            nugget = 0", "            var_scale = (krige_var / self.model.var) ** 0.5\n            nugget = 0")]),
 ("R03-delete-before-recompute", [(KB, "        # upate the internal kriging settings\n", "        self.delete_fields()\n        # upate the internal kriging settings\n"), (KB, "        # fields stored for the previous kriging setup are outdated now\n        self.delete_fields()\n", "")]),
]
C10 = [
 ("N01-post-fitting-var-first", [(F, "            if par == \"var\":  # set variance last\n                var_tmp = popt[para_skip]\n            else:\n                setattr(model, par, popt[para_skip])", "            setattr(model, par, popt[para_skip])"),
                                 (F, "    # set var at last because of var_factor (other parameter needed)\n    if para[\"var\"]:\n        model.var = var_tmp\n    return fit_para", "    return fit_para")]),
 ("N02-bounds-swapped", [(F, "    return (low_bounds, top_bounds), init_guess_list", "    return (top_bounds, low_bounds), init_guess_list")]),
 ("N03-lower-bound-dropped", [(F, ["    for par in DEFAULT_PARA:\n        if para[par]:\n            low_bounds.append(model.arg_bounds[par][0])", "            else:\n                low_bounds.append(model.arg_bounds[par][0])"],
                                      ["    for par in DEFAULT_PARA:\n        if para[par]:\n            low_bounds.append(-np.inf)", "            else:\n                low_bounds.append(-np.inf)"])]),
 ("N04-fixed-value-ignored", [(F, "                setattr(model, par, float(para_select[par]))", "                pass")]),
 ("N05-sill-on-var-only", [(F, "                # nugget estimation deselected in this case\n                model.nugget = nugget_tmp\n", "")]),
 ("N06-dict-before-assignment", [(F, "                setattr(model, par, popt[para_skip])\n            fit_para[par] = popt[para_skip]", "                fit_para[par] = getattr(model, par)\n                setattr(model, par, popt[para_skip])")]),
 ("N07-anis-fitted-although-off", [(F, "    anis &= is_dir_vario", "    anis = is_dir_vario")]),
 ("N08-weights-not-inverted", [(F, "            weights = 1.0 / np.asarray(weights).reshape(-1)", "            weights = np.asarray(weights).reshape(-1)")]),
 ("N09-latlon-no-chordal", [(F, "        x_data = great_circle_to_chordal(x_data, model.geo_scale)", "        pass")]),
 ("N10-r2-formula", [(F, "    return 1.0 - (ss_res / ss_tot)", "    return ss_res / ss_tot")]),
 ("N11-init-guess-unchecked", [(F, "    if bounds[0] < default < bounds[1]:\n        return default\n    return default_arg_from_bounds(bounds)", "    return default")]),
 ("N12-var-bound-ignores-sill", [(F, ["            if par == \"var\" and constrain_sill:  # var <= sill in this case\n                top_bounds.append(sill)\n            else:\n                top_bounds.append(model.arg_bounds[par][1])",
                                         "                top_bounds.append(\n                    min(model.arg_bounds[par][1], sill - nug_bnd[0])\n                )"],
                                        ["            top_bounds.append(model.arg_bounds[par][1])", "                top_bounds.append(model.arg_bounds[par][1])"])]),
 ("N13-opt-arg-popt-offset", [(F, "            setattr(model, opt, popt[para_skip + opt_skip])\n            fit_para[opt] = popt[para_skip + opt_skip]", "            setattr(model, opt, popt[para_skip + opt_skip - 1])\n            fit_para[opt] = popt[para_skip + opt_skip - 1]")]),
 ("N14-deselected-nugget-reset", [(F, "        else:\n            fit_para[par] = getattr(model, par)\n    for opt in model.opt_arg:", "        else:\n            setattr(model, par, model.arg_bounds[par][0] + 1.0)\n            fit_para[par] = getattr(model, par)\n    for opt in model.opt_arg:")]),
 ("N15-optimum-not-applied", [(F, "    curve_fit_kwargs[\"f\"](x_data, *popt)\n", "")]),
 ("R01-init-guess-chained-and", [(F, "    if bounds[0] < default < bounds[1]:", "    if bounds[0] < default and default < bounds[1]:")]),
 ("R02-post-fitting-local-value", [(F, "                setattr(model, par, popt[para_skip])\n            fit_para[par] = popt[para_skip]", "                value = popt[para_skip]\n                setattr(model, par, value)\n            fit_para[par] = popt[para_skip]")]),
 ("R03-weights-reciprocal-form", [(F, "            weights = 1.0 + x_data", "            weights = x_data + 1.0")]),
]


if __name__ == "__main__":
    prop, only = sys.argv[1], sys.argv[2:]
    for name, edits in {"C07": C07, "C10": C10}[prop]:
        if only and not any(o in name for o in only):
            continue
        run(prop, name, edits)
