r"""C10 -- variogram fitting honours its constraints (the decidable part).

NOT decided here: "recovers the generating curve / parameters, r2 -> 1" -- that is convergence of
scipy's trust-region least-squares solver (no contract; DESIGN 6-C10, residue).

Decided, under the ASSUMED dependency contract of scipy.optimize.curve_fit (T5):

    curve_fit(f, xdata, ydata, p0, bounds=(lo, hi), ...) may call f(xdata, *p) any number of times, in
    any order, with arguments inside the given bounds, and returns some popt inside the given bounds
    (plus a covariance estimate).  "Inside" is read with the openness of the model's own bounds: a
    value exactly on an open model bound makes the model setter raise ValueError (shown by one
    contract below); trf iterates are strictly feasible.

`gstools.covmodel.fit.curve_fit` (module global) is replaced by a ghost that records what it is
handed (p0, bounds, xdata, ydata, sigma, loss, method ...), evaluates the curve k times on fresh
symbolic in-bounds parameter vectors and returns a fresh symbolic in-bounds popt.  The REAL
fit_variogram / _pre_para / _init_curve_fit_para / _get_curve / _post_fitting / _r2_score run on it,
symbolically and natively.

Spec sources: the property statement and the docstring of fit_variogram (parameter selection,
"sill" paragraph, init_guess, weights), covmodel.fit / CovModel.fit_variogram.

Reading of the sill paragraph (S = prescribed sill; "deselected" = False or fixed value):
  * var and nugget both deselected: nugget := S - var; if var > S: nugget := lower nugget bound,
    var := S - nugget;
  * only var deselected: var kept (ValueError if var > S), nugget := S - var and is not fitted;
  * only nugget deselected: nugget kept (ValueError if nugget > S), var := S - nugget, not fitted;
  * neither: var fitted in (var_lo, S], nugget := S - var;
  * sill=False: S = sill of the model after the fixed values were applied.
"Parameters that are deselected or given fixed values are not altered" is stated for var / nugget
with these documented recalculations as the only exceptions.
"""
import warnings

import numpy as np

import gstools as gs
from gsvc.contract import contract
from gsvc import symrun
from gsvc.symrun import is_sym
import gstools.covmodel.fit as fitmod

P = "C10"
INF = float("inf")
DEFAULT_PARA = ["var", "len_scale", "nugget"]


def _install_inf_arith():
    """local shim: finite real +- (+-inf) = +-inf as a plain float (bounds such as `sill - nugget_upper_bound`
    with an infinite model bound); products / quotients with inf stay unsupported"""
    SR = symrun.SymReal
    if getattr(SR._bin, "_gsvc_c10", False):
        return
    orig = SR._bin

    def _bin(self, other, f, rev=False):
        if isinstance(other, (float, np.floating)) and np.isinf(other):
            o = float(other)
            r = [(f(o, t) if rev else f(t, o)) for t in (-1.0, 1.0)]
            if r[0] == r[1] and np.isinf(r[0]):
                return r[0]
        return orig(self, other, f, rev)
    _bin._gsvc_c10 = True
    SR._bin = _bin
    symrun.SHIM_LOG.append("SymReal +- inf -> +-inf (plain float) for bounds arithmetic with infinite model bounds "
                           "(contracts/c10.py)")


_install_inf_arith()


def _q(f, *a, **k):
    with warnings.catch_warnings():
        warnings.simplefilter("ignore")
        return f(*a, **k)


def arr(ctx, xs):
    return np.array(list(xs), dtype=object if ctx.mode == "sym" else float)


# ---------------------------------------------------------------------------------------
# bounds helpers (concrete +-inf ends are handled without terms)
# ---------------------------------------------------------------------------------------
def in_bound(ctx, x, bnd, closed=False):
    lo, hi = bnd[0], bnd[1]
    typ = "cc" if closed else (bnd[2] if len(bnd) == 3 else "cc")
    cs = []
    if not (isinstance(lo, float) and lo == -INF):
        cs.append(ctx.ge(x, lo) if typ[0] == "c" else ctx.gt(x, lo))
    if not (isinstance(hi, float) and hi == INF):
        cs.append(ctx.le(x, hi) if typ[1] == "c" else ctx.lt(x, hi))
    return ctx.And(*cs)


def _is_inf(v, sign):
    return (not is_sym(v)) and isinstance(v, (int, float, np.floating)) and float(v) == sign * INF


def sub_bound(ctx, lo, hi, bnd):
    """[lo, hi] (as handed to curve_fit) is a non-empty part of the model bound `bnd`"""
    cs = []
    mlo, mhi = bnd[0], bnd[1]
    if _is_inf(lo, +1) or _is_inf(hi, -1):
        return False
    if _is_inf(lo, -1):
        cs.append(_is_inf(mlo, -1))
    elif not _is_inf(mlo, -1):
        cs.append(ctx.ge(lo, mlo))
    if _is_inf(hi, +1):
        cs.append(_is_inf(mhi, +1))
    elif not _is_inf(mhi, +1):
        cs.append(ctx.le(hi, mhi))
    if not (_is_inf(lo, -1) or _is_inf(hi, +1)):
        cs.append(ctx.lt(lo, hi))
    return ctx.And(*cs)


# ---------------------------------------------------------------------------------------
# ghost curve_fit
# ---------------------------------------------------------------------------------------
class GhostCurveFit:
    """stands in for scipy.optimize.curve_fit inside gstools.covmodel.fit"""

    def __init__(self, ctx, model, slots, k, spans):
        self.ctx, self.model, self.slots, self.k, self.spans = ctx, model, slots, k, spans
        self.rec = None
        self.evals = []
        self.popt = None
        self.protocol_ok = True

    def slot_bound(self, i):
        name = self.slots[i]
        return list(self.model.anis_bounds if name.startswith("anis") else self.model.arg_bounds[name])

    def _vector(self, tag, lo, hi):
        ctx = self.ctx
        vals = []
        for i, name in enumerate(self.slots):
            a, b = self.spans.get(name, (0.2, 0.8))
            x = ctx.real("%s_%s" % (tag, name), lo=a, hi=b)
            # T5: inside the bounds handed over ...
            ctx.require(in_bound(ctx, x, [lo[i], hi[i]], closed=True))
            # ... read with the openness of the model's own bound (see module docstring)
            ctx.require(in_bound(ctx, x, self.slot_bound(i)))
            vals.append(x)
        return vals

    def __call__(self, **kw):
        ctx = self.ctx
        self.rec = dict(kw)
        f, p0, (lo, hi) = kw["f"], list(kw["p0"]), kw["bounds"]
        lo, hi = list(lo), list(hi)
        if not (len(p0) == len(lo) == len(hi) == len(self.slots)):
            self.protocol_ok = False        # wrong number of fitted parameters: reported by the contract
            n = len(p0)
            self.popt = [ctx.real("popt_x%d" % i) for i in range(n)]
            return arr(ctx, self.popt), np.eye(max(n, 1))
        # bounds that are no interval inside the model's bound: reported by the contract; the ghost then
        # draws from the model's own bound so that the remaining obligations stay meaningful
        for i in range(len(self.slots)):
            ok = sub_bound(ctx, lo[i], hi[i], self.slot_bound(i))
            if ok is False or (ctx.mode == "conc" and not ok):
                b = self.slot_bound(i)
                lo[i], hi[i] = b[0], b[1]
        for j in range(self.k):
            args = self._vector("ev%d" % j, lo, hi)
            out = f(kw["xdata"], *args)
            self.evals.append((args, out))
        self.popt = self._vector("popt", lo, hi)
        return arr(ctx, self.popt), np.eye(len(self.slots))


class ghost_installed:
    def __init__(self, ghost):
        self.ghost = ghost

    def __enter__(self):
        self.real = fitmod.curve_fit
        fitmod.curve_fit = lambda **kw: self.ghost(**kw)
        return self.ghost

    def __exit__(self, *a):
        fitmod.curve_fit = self.real


symrun.SHIM_LOG.append("gstools.covmodel.fit.curve_fit -> ghost (T5: k curve evaluations on fresh in-bounds arguments, "
                       "fresh in-bounds popt) inside the C10 contracts (contracts/c10.py)")


# ---------------------------------------------------------------------------------------
# model under fit and the selection
# ---------------------------------------------------------------------------------------
MODES = ("fit", "fix", "off")
_PRE_HOOK = None
SPAN = {"var": (0.3, 0.9), "len_scale": (0.5, 2.0), "nugget": (0.05, 0.4), "alpha": (0.5, 1.9)}


def make_model(ctx, cls, dim, latlon=False):
    """model with symbolic in-bounds start parameters"""
    M = getattr(gs, cls)
    a = {"var": ctx.real("var0", lo=0.5, hi=1.5), "len_scale": ctx.real("len0", lo=0.5, hi=2.0),
         "nugget": ctx.real("nug0", lo=0.05, hi=0.4)}
    ctx.require(ctx.And(ctx.gt(a["var"], 0), ctx.gt(a["len_scale"], 0), ctx.ge(a["nugget"], 0)))
    kw = {}
    if cls == "Stable":
        a["alpha"] = ctx.real("alpha0", lo=0.5, hi=1.9)
        ctx.require(ctx.And(ctx.gt(a["alpha"], 0), ctx.le(a["alpha"], 2)))
        kw["alpha"] = a["alpha"]
    if cls == "TPLGaussian":
        a["hurst"] = ctx.real("hurst0", lo=0.2, hi=0.8)
        a["len_low"] = ctx.real("len_low0", lo=0.01, hi=0.3)
        ctx.require(ctx.And(ctx.gt(a["hurst"], 0.1), ctx.lt(a["hurst"], 1), ctx.ge(a["len_low"], 0)))
        kw.update(hurst=a["hurst"], len_low=a["len_low"])
    if dim > 1 and not latlon:
        a["anis"] = [ctx.real("anis0_%d" % i, lo=0.5, hi=2.0) for i in range(dim - 1)]
        for r in a["anis"]:
            ctx.require(ctx.gt(r, 0))
        a["angles"] = [ctx.real("ang0_%d" % i, lo=-1.0, hi=1.0) for i in range(dim * (dim - 1) // 2)]
        kw.update(anis=list(a["anis"]), angles=list(a["angles"]))
    if latlon:
        kw.update(latlon=True, geo_scale=ctx.real("geo", lo=1.0, hi=3.0))
        ctx.require(ctx.gt(kw["geo_scale"], 0))
        a["geo_scale"] = kw["geo_scale"]
    m = _q(M, dim=dim, var=a["var"], len_scale=a["len_scale"], nugget=a["nugget"], **kw)
    if _PRE_HOOK is not None:
        _PRE_HOOK(m)
        for p in DEFAULT_PARA:
            ctx.require(in_bound(ctx, a[p], list(m.arg_bounds[p])))
    return m, a


def selection(ctx, model, sel):
    """keyword arguments of fit_variogram for a selection {param: fit|fix|off}; fixed values are
    symbolic and inside the model's bounds"""
    kw, fixed = {}, {}
    for p, mode in sel.items():
        if mode == "off":
            kw[p] = False
        elif mode == "fix":
            a, b = SPAN[p]
            v = ctx.real("fix_" + p, lo=a, hi=b)
            ctx.require(in_bound(ctx, v, list(model.arg_bounds[p])))
            kw[p] = v
            fixed[p] = v
    return kw, fixed


def expected(ctx, model, a0, sel, fixed, sill_mode, sill_val, n_anis=0, anis_mode="off"):
    """documented outcome: which parameters are fitted (slots, in the order var, len_scale, nugget,
    optional arguments, anisotropy ratios), the prescribed sill S and, for the others, the final value
    (a term) -- see the module docstring"""
    m = ctx.m
    opt = list(model.opt_arg)
    # the values the parameters have once the fixed values are assigned (variance last): for models whose
    # variance depends on other parameters (truncated power law: var = var_raw * var_factor(len_scale, len_low,
    # hurst)) assigning e.g. len_low moves var like any plain assignment `model.len_low = v` does
    import copy
    ref = copy.copy(model)
    for p, v in fixed.items():
        if p != "var":
            setattr(ref, p, v)
    if "var" in fixed:
        ref.var = fixed["var"]
    val_in = {p: fixed.get(p, getattr(ref, p)) for p in DEFAULT_PARA + opt}
    fitted = {p: sel.get(p, "fit") == "fit" for p in DEFAULT_PARA + opt}
    final = {p: None if fitted[p] else val_in[p] for p in DEFAULT_PARA + opt}
    S, raises = None, ctx.Or()
    if sill_mode != "none":
        S = sill_val if sill_mode == "given" else val_in["var"] + val_in["nugget"]
        vb, nb = model.arg_bounds["var"], model.arg_bounds["nugget"]
        v_des, n_des = not fitted["var"], not fitted["nugget"]
        if v_des and n_des:
            big = ctx.gt(val_in["var"], S)
            final["nugget"] = m.ite(big, nb[0], S - val_in["var"])
            final["var"] = m.ite(big, S - nb[0], val_in["var"])
        elif v_des:
            raises = ctx.gt(val_in["var"], S)
            final["nugget"] = S - val_in["var"]
            fitted["nugget"] = False
        elif n_des:
            raises = ctx.ge(val_in["nugget"], S)       # "should be less than the given sill"
            final["var"] = S - val_in["nugget"]
            fitted["var"] = False
        else:
            fitted["nugget"] = False
            final["nugget"] = "S-var"
    slots = [p for p in DEFAULT_PARA if fitted[p]] + [p for p in opt if fitted[p]]
    if anis_mode == "fit":
        slots += ["anis%d" % i for i in range(n_anis)]
    return slots, S, final, raises


# ---------------------------------------------------------------------------------------
# the contract body
# ---------------------------------------------------------------------------------------
FN = ["covmodel/fit.py:fit_variogram", "covmodel/fit.py:_pre_para", "covmodel/fit.py:_pre_init_guess",
      "covmodel/fit.py:_check_vario", "covmodel/fit.py:_set_weights", "covmodel/fit.py:_init_curve_fit_para",
      "covmodel/fit.py:_init_guess", "covmodel/fit.py:_get_curve", "covmodel/fit.py:_post_fitting",
      "covmodel/fit.py:_r2_score", "covmodel/base.py:CovModel.fit_variogram", "covmodel/base.py:CovModel._set_checked",
      "covmodel/tools.py:check_arg_in_bounds", "covmodel/tools.py:default_arg_from_bounds"]
X2 = [0.5, 1.5]
Y2 = [0.4, 0.8]
X1 = [1.0]
Y1 = [0.6]


def frame_view(model):
    return {"dim": model.dim, "latlon": model.latlon, "temporal": model.temporal, "angles": model.angles,
            "rescale": model.rescale, "geo_scale": model.geo_scale, "anis": np.array(model.anis)}


def run_fit(ctx, cls, dim, sel, sill_mode, k, anis_mode="off", directional=False, x=None, y=None, latlon=False,
            check=("state",), **fit_kw):
    """runs the real fit_variogram on the ghost optimiser and states the obligations selected by
    `check`; returns everything for further obligations"""
    model, a0 = make_model(ctx, cls, dim, latlon=latlon)
    opt = list(model.opt_arg)
    names = DEFAULT_PARA + opt
    kwsel, fixed = selection(ctx, model, sel)
    n_anis = dim - 1 if directional else 0
    sill_val = None
    if sill_mode == "given":
        sill_val = ctx.real("sill", lo=1.0, hi=2.0)
        kwsel["sill"] = sill_val
    elif sill_mode == "False":
        kwsel["sill"] = False
    anis_fixed = None
    if directional:
        if anis_mode == "off":
            kwsel["anis"] = False
        elif anis_mode == "fix":
            anis_fixed = [ctx.real("fix_anis%d" % i, lo=0.5, hi=2.0) for i in range(n_anis)]
            for r in anis_fixed:
                ctx.require(in_bound(ctx, r, list(model.anis_bounds)))
            kwsel["anis"] = list(anis_fixed)
    slots, S, final, raises = expected(ctx, model, a0, sel, fixed, sill_mode, sill_val, n_anis, anis_mode)
    bnd = {p: list(model.arg_bounds[p]) for p in names}
    if S is not None:
        # "It needs to be in a fitting range for the var and nugget bounds" (var's bound is open)
        # and there must be room to fit: strictly below the sum of (finite) upper bounds
        ctx.require(ctx.And(ctx.gt(S, bnd["var"][0] + bnd["nugget"][0]),
                            in_bound(ctx, S, [0.0, bnd["var"][1] + bnd["nugget"][1], "co"])))
    assert slots, "selection without any fitted parameter"
    spans = dict(SPAN)
    spans.update({"anis%d" % i: (0.5, 2.0) for i in range(n_anis)})
    ghost = GhostCurveFit(ctx, model, slots, k, spans)
    before = frame_view(model)
    if x is None:
        # one bin centre where the curve VALUES only add special-function terms (they are never used by the
        # ghost optimiser): directional data, models with optional arguments
        one = directional or cls != "Gaussian"
        x = X1 if one else X2
        y = ((Y1 if one else Y2) * (dim if directional else 1)) if y is None else y
    y = (Y2 * (dim if directional else 1)) if y is None else y
    raised = None
    try:
        with ghost_installed(ghost):
            ret = _q(model.fit_variogram, x, y, **kwsel, **fit_kw)
    except ValueError as e:
        raised = e
    if raised is not None:
        ctx.ensure("ValueError-only-as-documented", raises)
        ctx.done()
    ctx.ensure("documented-ValueError-raised", ctx.Not(raises))
    para = ret[0]
    rec = ghost.rec
    R = dict(model=model, a0=a0, slots=slots, S=S, final=final, ghost=ghost, ret=ret, names=names, fixed=fixed,
             bnd=bnd, before=before, anis_fixed=anis_fixed, n_anis=n_anis, x=x, y=y)
    ctx.ensure("fitted-parameters=selection", bool(ghost.protocol_ok and rec is not None))
    if not (ghost.protocol_ok and rec is not None):
        ctx.done()
    lo, hi = [list(b) for b in rec["bounds"]]
    p0 = list(rec["p0"])
    popt = ghost.popt
    if "bounds" in check:
        for i, name in enumerate(slots):
            ctx.ensure("bounds-handed-to-curve_fit-inside-model-bounds[%s]" % name,
                       sub_bound(ctx, lo[i], hi[i], ghost.slot_bound(i)))
            if name == "var" and S is not None:
                ctx.ensure("var-upper-bound<=sill", (not _is_inf(hi[i], 1)) and ctx.le(hi[i], S))
            ctx.ensure("p0-strictly-inside-bounds[%s]" % name, in_bound(ctx, p0[i], [lo[i], hi[i], "oo"]))
    if "state" in check:
        for p in names:
            got = getattr(model, p)
            if p in slots:
                ctx.ensure("fitted=popt[%s]" % p, ctx.eq(got, popt[slots.index(p)]))
            elif not isinstance(final[p], str):
                ctx.ensure("not-fitted=>documented-value[%s]" % p, ctx.eq(got, final[p]))
            ctx.ensure("inside-model-bounds[%s]" % p, in_bound(ctx, got, bnd[p]))
        if S is not None:
            ctx.ensure("sill=var+nugget", ctx.eq(model.var + model.nugget, S))
        # the returned dictionary is the model state
        want_keys = sorted(names + (["anis"] if directional else []))
        ctx.ensure("returned-keys", sorted(para) == want_keys)
        for p in names:
            if p in para:
                ctx.ensure("returned[%s]=model.%s" % (p, p), ctx.eq(para[p], getattr(model, p)))
        if directional and "anis" in para:
            ctx.ensure("returned[anis]=model.anis", ctx.And(ctx.shape_eq(para["anis"], (n_anis,)), ctx.eq(para["anis"], model.anis)))
        # frame
        after = frame_view(model)
        for key in ("dim", "latlon", "temporal"):
            ctx.ensure("frame[%s]" % key, before[key] == after[key])
        for key in ("angles", "rescale", "geo_scale"):
            ctx.ensure("frame[%s]" % key, ctx.eq(before[key], after[key]) if np.size(before[key]) else True)
        if n_anis and anis_mode == "fit":
            ctx.ensure("fitted=popt[anis]", ctx.eq(model.anis, [popt[slots.index("anis%d" % i)] for i in range(n_anis)]))
            for i in range(n_anis):
                ctx.ensure("inside-model-bounds[anis%d]" % i, in_bound(ctx, model.anis[i], list(model.anis_bounds)))
        elif n_anis and anis_mode == "fix":
            ctx.ensure("not-fitted=>documented-value[anis]", ctx.eq(model.anis, anis_fixed))
        elif np.size(before["anis"]):
            ctx.ensure("not-fitted=>documented-value[anis]", ctx.eq(model.anis, before["anis"]))
    return R


_ABBR = {"len_low": "low"}


def _sel_name(sel):
    return ",".join("%s:%s" % (_ABBR.get(k, k[:3]), v) for k, v in sel.items()) or "all-fit"


def selections(params):
    out = []
    import itertools
    for modes in itertools.product(MODES, repeat=len(params)):
        sel = {p: m for p, m in zip(params, modes) if m != "fit"}
        out.append(sel)
    return out


def has_slots(sel, params, sill):
    """at least one parameter is left for the optimiser (documented sill rules applied)"""
    fitted = {p: sel.get(p, "fit") == "fit" for p in params}
    if sill != "none":
        if not fitted["var"] and not fitted["nugget"]:
            pass
        elif not fitted["var"]:
            fitted["nugget"] = False
        elif not fitted["nugget"]:
            fitted["var"] = False
        else:
            fitted["nugget"] = False
    return any(fitted.values())


def grid(cls, params, ks, sills=("none", "given", "False")):
    out = []
    for sel in selections(params):
        for sill in sills:
            if not has_slots(sel, params, sill):
                continue
            for k in ks:
                out.append({"cls": cls, "sel": _sel_name(sel), "sill": sill, "k": k, "_sel": sel})
    return out


def _strip(p):
    return {k: v for k, v in p.items() if not k.startswith("_")}


_SEL = {}


def _register(params):
    for p in params:
        _SEL[(p["cls"], p["sel"])] = p["_sel"]
    return [_strip(p) for p in params]


PG = ["var", "len_scale", "nugget"]
PS = PG + ["alpha"]


def _stable_quick():
    """quick tier: every mode of the optional argument against representative selections of the others"""
    rep = [{}, {"var": "off"}, {"len_scale": "fix"}, {"nugget": "fix"}, {"var": "fix", "nugget": "off"}]
    keep = []
    for q in grid("Stable", PS, (2,)):
        rest = {k: v for k, v in q["_sel"].items() if k != "alpha"}
        if rest in rep:
            keep.append(q)
    return keep


@contract(P, "fit_variogram/selection-and-sill", params=_register(grid("Gaussian", PG, (0, 1, 2)) + _stable_quick()),
          functions=FN, nsamples=2, search=20, timeout=20)
def fit_selection(ctx, cls, sel, sill, k):
    run_fit(ctx, cls, 1, _SEL[(cls, sel)], sill, k, check=("state", "bounds"))


@contract(P, "fit_variogram/selection-and-sill[more]",
          params=_register([q for q in grid("Stable", PS, (0, 1, 2)) if not (q["k"] == 2 and q in _stable_quick())]), functions=FN,
          nsamples=2, search=20, timeout=20, tiers=("thorough",))
def fit_selection_more(ctx, cls, sel, sill, k):
    run_fit(ctx, cls, 1, _SEL[(cls, sel)], sill, k, check=("state", "bounds"))


# --- directional data (dim 2): anisotropy fitted / deselected / fixed --------------------------------
DIR_SEL = [{}, {"len_scale": "off"}, {"var": "fix"}, {"nugget": "off"}, {"var": "off", "len_scale": "off", "nugget": "off"}]


def _dir_grid(ks):
    out = []
    for sel in DIR_SEL:
        for anis in ("fit", "off", "fix"):
            for sill in ("none", "given"):
                if not has_slots(sel, PG, sill) and anis != "fit":
                    continue
                for k in ks:
                    out.append({"cls": "Gaussian", "sel": _sel_name(sel), "anis": anis, "sill": sill, "k": k, "_sel": sel})
    return out


@contract(P, "fit_variogram/directional-anis", params=_register(_dir_grid((2,))), functions=FN, nsamples=2, search=20,
          timeout=20)
def fit_directional(ctx, cls, sel, anis, sill, k):
    run_fit(ctx, cls, 2, _SEL[(cls, sel)], sill, k, anis_mode=anis, directional=True, check=("state", "bounds"))


@contract(P, "fit_variogram/isotropic-data-in-dim2", params=[{"anis": a, "sill": s} for a in ("fit", "fix") for s in ("none", "given")],
          functions=FN, nsamples=2, search=20, timeout=20)
def fit_iso_dim2(ctx, anis, sill):
    """one variogram for a 2-d model: anisotropy is not fitted whatever `anis=True` says; a fixed value is set"""
    model, a0 = make_model(ctx, "Gaussian", 2)
    kw = {}
    fixed = None
    if anis == "fix":
        fixed = [ctx.real("fix_anis0", lo=0.5, hi=2.0)]
        ctx.require(in_bound(ctx, fixed[0], list(model.anis_bounds)))
        kw["anis"] = list(fixed)
    S = None
    if sill == "given":
        S = kw["sill"] = ctx.real("sill", lo=1.0, hi=2.0)
        ctx.require(ctx.gt(S, 0))
    slots = ["var", "len_scale"] + ([] if S is not None else ["nugget"])
    ghost = GhostCurveFit(ctx, model, slots, 2, SPAN)
    with ghost_installed(ghost):
        para, pcov = _q(model.fit_variogram, X2, Y2, **kw)
    ctx.ensure("fitted-parameters=selection", bool(ghost.protocol_ok))
    ctx.ensure("anis-not-fitted", ctx.eq(model.anis, fixed if fixed is not None else a0["anis"]))
    ctx.ensure("returned-keys", sorted(para) == ["len_scale", "nugget", "var"])
    ctx.ensure("frame[angles]", ctx.eq(model.angles, a0["angles"]))


# --- initial guess ----------------------------------------------------------------------------------
def _default_from_bounds(lo, hi):
    """documented fallback (covmodel.tools.default_arg_from_bounds)"""
    if not _is_inf(lo, -1) and not _is_inf(hi, 1):
        return (lo + hi) / 2.0
    if not _is_inf(lo, -1):
        return lo + 1.0
    return hi - 1.0


@contract(P, "fit_variogram/init_guess-in-bounds",
          params=[{"cls": c, "guess": g, "sill": s} for c in ("Gaussian", "Stable")
                  for g in ("default", "current", "dict-len", "dict-var+current") for s in ("none", "given")],
          functions=FN, nsamples=3, search=30, timeout=20)
def fit_init_guess(ctx, cls, guess, sill):
    m = ctx.m
    y = [ctx.real("y0", lo=0.2, hi=0.9)]
    given = ctx.real("guess", lo=-0.5, hi=3.0)
    ig = {"default": "default", "current": "current", "dict-len": {"len_scale": given},
          "dict-var+current": {"var": given, "default": "current"}}[guess]
    R = run_fit(ctx, cls, 1, {}, sill, 1, x=X1, y=arr(ctx, y), init_guess=ig, check=("bounds",))
    rec, slots, a0, model = R["ghost"].rec, R["slots"], R["a0"], R["model"]
    lo, hi = [list(b) for b in rec["bounds"]]
    p0 = list(rec["p0"])
    mean_y = y[0]
    for i, p in enumerate(slots):
        inside = lambda v: in_bound(ctx, v, [lo[i], hi[i], "oo"])      # noqa: E731
        fallback = _default_from_bounds(lo[i], hi[i])
        if guess in ("current", "dict-var+current") and not (guess == "dict-var+current" and p == "var"):
            want = a0[p]                # "current": using the current values of the covariance model
        elif (guess == "dict-len" and p == "len_scale") or (guess == "dict-var+current" and p == "var"):
            want = given                # dict: the given value
        elif p in ("var", "nugget"):
            want = mean_y               # "default": mean of given variogram values (if in given bounds)
        else:
            continue                    # len_scale / optional arguments: class defaults, only in-bounds is stated
        ctx.ensure("p0=documented-guess-if-inside-bounds-else-bounds-default[%s]" % p,
                   ctx.And(ctx.Implies(inside(want), ctx.eq(p0[i], want)),
                           ctx.Implies(ctx.Not(inside(want)), ctx.eq(p0[i], fallback))))


# --- weights ----------------------------------------------------------------------------------------
@contract(P, "fit_variogram/weights-passed-as-sigma",
          params=[{"weights": w, "data": d} for w in ("none", "inv", "list", "pylist", "callable") for d in ("iso", "dir")] +
                 [{"weights": w, "data": d} for w in ("list", "callable") for d in ("dir,anis=off", "dir,anis=fix")],
          functions=FN, nsamples=2, search=20, timeout=20)
def fit_weights(ctx, weights, data):
    x = [ctx.real("x%d" % i, lo=0.3 + i, hi=0.9 + i) for i in range(2)]
    for v in x:
        ctx.require(ctx.ge(v, 0))
    w = [ctx.real("w%d" % i, lo=0.5, hi=2.0) for i in range(2)]
    for v in w:
        ctx.require(ctx.gt(v, 0))
    c = ctx.real("wc", lo=0.5, hi=2.0)
    ctx.require(ctx.gt(c, 0))
    arg = {"none": None, "inv": "inv", "list": arr(ctx, w), "pylist": list(w), "callable": (lambda xs: c + xs * xs)}[weights]
    # per-bin weights belong to every direction of a directional variogram, whether the anisotropy is fitted or not
    dim = 2 if data.startswith("dir") else 1
    R = run_fit(ctx, "Gaussian", dim, {}, "none", 1, anis_mode=data[9:] if "," in data else "fit",
                directional=data.startswith("dir"), x=arr(ctx, x), weights=arg, check=())
    rec = R["ghost"].rec
    xs = list(x) * dim
    if weights == "none":
        ctx.ensure("no-sigma", "sigma" not in rec and "absolute_sigma" not in rec)
        ctx.done()
    ctx.ensure("absolute_sigma", rec.get("absolute_sigma") is True)
    sig = rec["sigma"]
    ctx.ensure("sigma-shape", ctx.shape_eq(sig, (len(xs),)))
    if weights == "inv":        # 'inv': inverse distance 1 / (x_data + 1)
        want = [1 / (1 / (v + 1)) for v in xs]
    elif weights in ("list", "pylist"):     # weights given per bin, as ndarray or (as documented) as list (the same for every direction)
        want = [1 / v for v in list(w) * dim]
    else:                       # callable: weights = f(x_data)
        want = [1 / (c + v * v) for v in xs]
    ctx.ensure("sigma=1/weights", ctx.eq(sig, want))
    ctx.ensure("xdata=bin-centres(tiled-per-direction)", ctx.eq(rec["xdata"], xs))


# --- lat-lon: bin centres are great-circle distances, the model is evaluated on chordal distances -----
@contract(P, "fit_variogram/latlon-great-circle-to-chordal", params=[{"sill": s} for s in ("none", "given")],
          functions=FN + ["tools/geometric.py:great_circle_to_chordal"], nsamples=2, search=20, timeout=20)
def fit_latlon(ctx, sill):
    m = ctx.m
    x = [ctx.real("x%d" % i, lo=0.2 + 0.5 * i, hi=0.6 + 0.5 * i) for i in range(2)]
    R = run_fit(ctx, "Gaussian", 3, {}, sill, 1, latlon=True, x=arr(ctx, x), check=("state",))
    rec, geo = R["ghost"].rec, R["a0"]["geo_scale"]
    ctx.ensure("xdata=chord(great-circle)", ctx.eq(rec["xdata"], [2 * geo * m.sin(v / (2 * geo)) for v in x]))
    ctx.ensure("ydata-unchanged", ctx.eq(rec["ydata"], Y2))


# --- directional data: one row per direction, whatever the memory layout of the array ---------------------------
@contract(P, "fit_variogram/directional-data-rows-are-directions-for-every-memory-layout",
          params=[{"layout": l, "dim": d} for l in ("C", "F", "transposed-view", "nested-list") for d in (2, 3)],
          functions=FN + ["covmodel/fit.py:_check_vario"], nsamples=2, search=20, timeout=20)
def fit_layout(ctx, layout, dim):
    """`y_data`: '(dim, n_bins) for directional variograms: one variogram per main axis' -- this is about the
    array's INDEX order; a Fortran-ordered array or a transposed view of an (n_bins, dim) table describes the
    same data as the C-ordered copy"""
    nb = 2
    vals = [[ctx.real("y%d_%d" % (d, i), lo=0.2 + 0.3 * i + 0.05 * d, hi=0.4 + 0.3 * i + 0.05 * d) for i in range(nb)]
            for d in range(dim)]
    dt = object if ctx.mode == "sym" else float
    c = np.array(vals, dtype=dt)
    if layout == "C":
        y = c
    elif layout == "F":
        y = np.asfortranarray(c)
    elif layout == "transposed-view":
        y = np.array([[vals[d][i] for d in range(dim)] for i in range(nb)], dtype=dt).T     # (dim, nb) view
    else:
        y = [list(r) for r in vals]
    R = run_fit(ctx, "Gaussian", dim, {}, "none", 1, anis_mode="fit", directional=True, x=X2, y=y, check=())
    rec = R["ghost"].rec
    flat = [vals[d][i] for d in range(dim) for i in range(nb)]
    ctx.ensure("ydata=direction-after-direction", ctx.And(ctx.shape_eq(rec["ydata"], (dim * nb,)), ctx.eq(rec["ydata"], arr(ctx, flat))))
    ctx.ensure("xdata=bin-centres-tiled-per-direction", ctx.eq(rec["xdata"], list(X2) * dim))


# --- r2 score ---------------------------------------------------------------------------------------
@contract(P, "fit_variogram/r2-score", params=[{"data": d} for d in ("iso", "dir", "latlon")], functions=FN,
          nsamples=2, search=20, timeout=20)
def fit_r2(ctx, data):
    m = ctx.m
    dim = 2 if data == "dir" else (3 if data == "latlon" else 1)
    nd = 2 if data == "dir" else 1
    n = 2 * nd
    if data in ("iso", "latlon"):
        y = [ctx.real("y%d" % i, lo=0.2 + 0.3 * i, hi=0.4 + 0.3 * i) for i in range(n)]
    else:       # concrete variogram values for the two directions (keeps the hypotheses linear)
        y = [0.25, 0.5, 0.375, 0.75]
    mean_y = sum(y) / n
    ss_tot = sum((v - mean_y) * (v - mean_y) for v in y)
    ctx.require(ctx.gt(ss_tot, 0))
    yarr = arr(ctx, y).reshape(nd, 2) if nd > 1 else arr(ctx, y)
    R = run_fit(ctx, "Gaussian", dim, {}, "none", 1, anis_mode=("off" if data == "latlon" else "fit"),
                directional=(data == "dir"), x=X2, y=yarr, return_r2=True, check=(), latlon=(data == "latlon"))
    model, ret = R["model"], R["ret"]
    ctx.ensure("returns-three-values", len(ret) == 3)
    # the final curve: the fitted model evaluated at the bin centres (per main axis for directional data;
    # for lat-lon models the bin centres are great-circle distances and the fitted curve is the variogram at
    # the associated chordal distance 2 R sin(d / (2 R)) -- the same curve curve_fit was given)
    xs = arr(ctx, X2)
    if data == "latlon":
        geo = R["a0"]["geo_scale"]
        xs = arr(ctx, [2 * geo * m.sin(v / (2 * geo)) for v in X2])
    curve = []
    for i in range(nd):
        curve += list(model.vario_axis(xs, axis=i)) if data == "dir" else list(model.variogram(xs))
    ss_res = sum((v - c) * (v - c) for v, c in zip(y, curve))
    ctx.ensure("r2=1-ss_res/ss_tot", ctx.eq(ret[2], 1 - ss_res / ss_tot))


# --- a value on an open model bound is rejected, never stored ----------------------------------------
@contract(P, "fit_variogram/popt-on-open-bound-raises", params=[{"par": p} for p in ("var", "len_scale")],
          functions=FN, nsamples=1, search=5, timeout=20)
def fit_open_bound(ctx, par):
    model, a0 = make_model(ctx, "Gaussian", 1)

    def ghost(**kw):
        popt = [ctx.real("popt_" + p, lo=0.3, hi=0.9) for p in DEFAULT_PARA]
        for v in popt:
            ctx.require(ctx.gt(v, 0))
        popt[DEFAULT_PARA.index(par)] = 0.0         # the closed lower bound curve_fit was given
        return arr(ctx, popt), np.eye(3)

    real = fitmod.curve_fit
    fitmod.curve_fit = ghost
    try:
        _q(model.fit_variogram, X2, Y2)
        raised = False
    except ValueError:
        raised = True
    finally:
        fitmod.curve_fit = real
    ctx.ensure("ValueError", raised)
    ctx.ensure("model-stays-inside-bounds", ctx.And(*[in_bound(ctx, getattr(model, p), list(model.arg_bounds[p]))
                                                      for p in DEFAULT_PARA]))


# --- custom bounds ----------------------------------------------------------------------------------
@contract(P, "fit_variogram/custom-bounds",
          params=[{"sill": s, "k": k, "sel": "all-fit"} for s in ("none", "given") for k in (1, 2)] +
                 [{"sill": "given", "k": 1, "sel": sl} for sl in ("var:off,nug:off", "var:off", "nug:off")],
          functions=FN + ["covmodel/base.py:CovModel.set_arg_bounds"], nsamples=3, search=40, timeout=20)
def fit_custom_bounds(ctx, sill, k, sel):
    """user bounds set through CovModel.set_arg_bounds (documented in the Notes of fit_variogram); with a prescribed
    sill and deselected variance / nugget the split of the sill respects the (non-zero) lower nugget bound"""
    seld = {"all-fit": {}, "var:off,nug:off": {"var": "off", "nugget": "off"}, "var:off": {"var": "off"},
            "nug:off": {"nugget": "off"}}[sel]
    def pre(model):
        _q(model.set_arg_bounds, var=[0.1, 5.0], len_scale=[0.2, 10.0, "cc"], nugget=[0.05, 0.5, "cc"])
        if seld:
            # the prescribed sill must be reachable inside the bounds with the deselected values ("it needs to be
            # in a fitting range for the var and nugget bounds"): otherwise the ValueError of the setters is right
            S = ctx.real("sill", lo=1.0, hi=2.0)
            v, n = model.var, model.nugget
            vb, nb = [0.1, 5.0, "oo"], [0.05, 0.5, "cc"]
            if sel == "var:off":
                ctx.require(in_bound(ctx, S - v, nb))
            elif sel == "nug:off":
                ctx.require(in_bound(ctx, S - n, vb))
            else:
                ctx.require(ctx.Or(ctx.And(ctx.gt(v, S), in_bound(ctx, S - nb[0], vb)),
                                   ctx.And(ctx.le(v, S), in_bound(ctx, S - v, nb))))
    global _PRE_HOOK
    _PRE_HOOK = pre
    try:
        run_fit(ctx, "Gaussian", 1, seld, sill, k, check=("state", "bounds"))
    finally:
        _PRE_HOOK = None


# --- truncated power law models: the variance depends on the length scale through var_factor ---------
def _install_tpl_stub():
    """the VALUES of the curve are irrelevant to the ghost optimiser; the special-function kernel of the TPL
    correlation (np.around / exp_int on its argument) is replaced by an uninterpreted function in symbolic runs"""
    import gstools.covmodel.tpl_models as tm
    if getattr(tm.tplstable_cor, "_gsvc_c10", False):
        return
    real = tm.tplstable_cor

    def tplstable_cor(r, len_scale, hurst, alpha):
        if symrun.symbolic_active() and any(is_sym(v) or (isinstance(v, np.ndarray) and v.dtype == object)
                                            for v in (r, len_scale, hurst, alpha)):
            rr = np.asarray(r, dtype=object)
            out = np.empty(rr.shape, dtype=object)
            for i, v in enumerate(rr.ravel().tolist()):
                out.reshape(-1)[i] = symrun.uf("tplstable_cor", v, len_scale, hurst, alpha)
            return out if rr.ndim else out.item()
        return real(r, len_scale, hurst, alpha)
    tplstable_cor._gsvc_c10 = True
    tm.tplstable_cor = tplstable_cor
    symrun.SHIM_LOG.append("gstools.covmodel.tpl_models.tplstable_cor -> uninterpreted function in symbolic runs "
                           "(curve values are not used by the ghost optimiser; contracts/c10.py)")


_install_tpl_stub()
TPL_SEL = [{}, {"var": "off"}, {"var": "fix"}, {"var": "off", "len_scale": "off"},
           # two fixed values, the variance named first / last: the later assignments rescale var_factor
           {"var": "fix", "hurst": "fix"}, {"hurst": "fix", "var": "fix"}, {"var": "fix", "len_low": "fix", "len_scale": "fix"}]
TPL_SEL_T = [{"var": "off", "nugget": "off"}, {"len_scale": "off"}, {"hurst": "off"}, {"var": "off", "len_low": "fix"}]


def _tpl_params(sels, sills, k):
    out = []
    for sel in sels:
        for sill in sills:
            if has_slots(sel, PG + ["hurst", "len_low"], sill):
                out.append({"cls": "TPLGaussian", "sel": _sel_name(sel), "sill": sill, "k": k, "_sel": sel})
    return out


SPAN.update({"hurst": (0.2, 0.8), "len_low": (0.01, 0.3)})


@contract(P, "fit_variogram/truncated-power-law-variance-bookkeeping", params=_register(_tpl_params(TPL_SEL, ("none",), 1)),
          functions=FN + ["covmodel/tpl_models.py:TPLCovModel.var_factor"], nsamples=2, search=20, timeout=20)
def fit_tpl(ctx, cls, sel, sill, k):
    """var = var_raw * var_factor(len_scale, len_low, hurst): a deselected / fixed variance must survive
    the length-scale changes of the curve evaluations (var_save logic), fitted ones must equal popt"""
    run_fit(ctx, cls, 1, _SEL[(cls, sel)], sill, k, check=("state",))


@contract(P, "fit_variogram/truncated-power-law-variance-bookkeeping[more]",
          params=_register(_tpl_params(TPL_SEL, ("given",), 1) + _tpl_params(TPL_SEL_T, ("none", "given"), 1) +
                           _tpl_params(TPL_SEL, ("none",), 2)),
          functions=FN + ["covmodel/tpl_models.py:TPLCovModel.var_factor"], nsamples=2, search=20, timeout=20,
          tiers=("thorough",))
def fit_tpl_more(ctx, cls, sel, sill, k):
    run_fit(ctx, cls, 1, _SEL[(cls, sel)], sill, k, check=("state", "bounds"))


# --- method / loss / max_eval / extra keyword arguments reach curve_fit untouched ----------------------
@contract(P, "fit_variogram/method-loss-passed-through",
          params=[{"method": m, "loss": l} for m in ("trf", "dogbox", "lm") for l in ("soft_l1", "linear")],
          functions=FN, nsamples=1, search=5, timeout=20)
def fit_options(ctx, method, loss):
    model, a0 = make_model(ctx, "Gaussian", 1)
    ghost = GhostCurveFit(ctx, model, list(DEFAULT_PARA), 1, SPAN)
    extra = {"ftol": 1e-9}
    raised = False
    try:
        with ghost_installed(ghost):
            _q(model.fit_variogram, X2, Y2, method=method, loss=loss, max_eval=77, curve_fit_kwargs=extra)
    except ValueError:
        raised = True
    if method == "lm":      # "method : {'trf', 'dogbox'}"
        ctx.ensure("unknown-method-rejected", raised and ghost.rec is None)
        ctx.ensure("model-untouched", ctx.And(*[ctx.eq(getattr(model, p), a0[p]) for p in DEFAULT_PARA]))
        ctx.done()
    rec = ghost.rec
    ctx.ensure("passed-through", (not raised) and rec["method"] == method and rec["loss"] == loss and
               rec["max_nfev"] == 77 and rec.get("ftol") == 1e-9)
    ctx.ensure("data-passed-through", ctx.And(ctx.eq(rec["xdata"], X2), ctx.eq(rec["ydata"], Y2)))
