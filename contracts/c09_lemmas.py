"""C09 layer A -- spec-level lemmas over the PROVED kernel postconditions (contracts/kernels.py).

The postcondition of ``unstructured`` / ``directional`` (C08) is the pair-enumeration definition
    counts[i] = CjU(.., i, n),  variogram[i] = norm(t, SjU(.., i, n), CjU(.., i, n))
built from the recursive spec sums Cm/Sm (fields), CkU/SkU (second point), CjU/SjU (first point).
The invariances of property C09 are statements about these spec functions only.

Two proof forms:

* ``induct`` (all sizes): a statement P(n) about spec sums with upper bound n is proved by the
  induction schema  [n <= lo => P(n)]  and  [n > lo, P(n-1) => P(n)]  (two z3 obligations; the
  other index variables are fresh constants, i.e. universally generalised).  Proved lemmas are
  available to later lemmas as quantified facts (E-matching on the spec applications).  The
  schema itself is the only meta-level step (listed in the trusted base).
* ``bounded`` (n <= 4 points, F <= 2 fields, D <= 3): the sums are unfolded completely for
  concrete sizes and the two sides are compared by z3 on ground terms (status BOUNDED).

Every statement is also evaluated natively (kern_spec.Native on random arrays): a statement that
is false natively is reported FAILED with the arrays as witness; `unknown` without native
counterexample is UNDECIDED.
"""
from __future__ import annotations

import ast
import itertools
import time
import zlib

import numpy as np
import z3

from gsvc import core, kern_solve
from gsvc import kern_spec as KS
from gsvc.kern_spec import V, Tr, to_bool, INT, REAL, BOOL
from contracts import kernels as K

P = "C09"
SPEC_TABLE = dict(K.SPEC)
SPEC_TABLE["perm"] = dict(doc="uninterpreted index map (relabelling of points)", params=[("x", "I")], ret="I")
SPECS = KS.Specs(SPEC_TABLE)

UA = "edges, pos, dt, D, F"          # unstructured argument tail after f


# ------------------------------------------------------------------------------------------------
# symbolic environments
# ------------------------------------------------------------------------------------------------
def arr(name, nd=2, elem="real", nan=False, shape=None):
    t = z3.Const(name, KS.arr_sort(nd, elem))
    nn = z3.Const(name + "_isnan", KS.arr_sort(nd, "bool")) if nan else None
    return V("arr", t, nd=nd, elem=elem, shape=shape, nan=nn)


def ivar(name):
    return V("int", z3.Const(name, INT))


def rvar(name):
    return V("real", z3.Const(name, REAL))


def svar(name):
    return V("str", z3.Const(name, INT))


def bvar(name):
    return V("bool", z3.Const(name, BOOL))


def tr(env, abbrev=None):
    return Tr(SPECS, env, "spec", None, KS.parse_abbrev(abbrev or {}), {})


def fml(env, text, abbrev=None):
    try:
        return to_bool(tr(env, abbrev).ev(ast.parse(text, mode="eval").body))
    except (KS.SpecError, KeyError) as e:
        raise KS.SpecError("lemma text %r: %r" % (text, e))


class Group:
    """a family of lemmas over one environment (arrays + global hypotheses)"""

    def __init__(self, gid, env, hyps, abbrev=None, functions=(), native=None, doc=""):
        self.gid = gid
        self.env = env
        self.abbrev = abbrev or {}
        self.hyp_texts = list(hyps)
        self.hyps = [fml(env, h, self.abbrev) for h in hyps]
        self.lemmas = {}
        self.order = []
        self.jobs = []          # (oid, facts, goal, meta)
        self.functions = tuple(functions)
        self.native = native    # callable(rng) -> env of numpy values satisfying the hypotheses
        self.doc = doc
        self.depth = None

    def _vars(self, vs):
        env = dict(self.env)
        consts = []
        for nm, srt in vs:
            v = {"I": ivar, "R": rvar, "S": svar, "B": bvar}[srt]("%s!%s" % (nm, self.gid.replace("/", "_")))
            env[nm] = v
            consts.append(v.t)
        return env, consts

    def quantified(self, name):
        L = self.lemmas[name]
        body = z3.Implies(z3.And(*L["side"]), L["claim"]) if L["side"] else L["claim"]
        if not L["consts"]:
            return body
        pats = L.get("patterns")
        if pats:
            try:
                return z3.ForAll(L["consts"], body, patterns=pats)
            except z3.Z3Exception:
                pass
        return z3.ForAll(L["consts"], body)

    def scalar(self, name, vs, hyps, claim, cert=None, hints=()):
        """pure real-arithmetic lemma over fresh scalars (no arrays, no other facts).  With `cert`
        (one multiplier text per hypothesis `p == q`) the obligation is the polynomial IDENTITY
        lhs - rhs == sum_k cert_k * (p_k - q_k), proved by z3 without hypotheses; lhs == rhs then
        follows from p_k == q_k by ideal membership (meta step, trusted base)."""
        env, consts = self._vars(vs)
        env = {k: v for k, v in env.items() if k in dict(vs)}
        hy = [fml(env, h) for h in hyps]
        cl = fml(env, claim)
        oid = "%s/lemma.%s/%s" % (P, self.gid, name)
        meta = {"group": self, "name": name, "vs": vs, "side": list(hyps), "claim": claim, "scalar": True}
        if cert is None:
            self.jobs.append((oid + ".direct", hy + [fml(env, h) for h in hints], cl, meta))
        else:
            c = ast.parse(claim, mode="eval").body
            lhs, rhs = ast.unparse(c.left), ast.unparse(c.comparators[0])
            terms = []
            for h, m in zip(hyps, cert):
                hh = ast.parse(h, mode="eval").body
                terms.append("(%s) * ((%s) - (%s))" % (m, ast.unparse(hh.left), ast.unparse(hh.comparators[0])))
            ident = "(%s) - (%s) == %s" % (lhs, rhs, " + ".join(terms) if terms else "0.0")
            meta = dict(meta, claim=ident, side=[])
            self.jobs.append((oid + ".identity", [], fml(env, ident), meta))
        self.lemmas[name] = {"consts": consts, "side": hy, "claim": cl, "patterns": None, "vs": vs}
        self.order.append(name)

    def instance(self, name, env, subst):
        """explicit instance of a scalar lemma: variables replaced by the given expressions"""
        L = self.lemmas[name]
        t = tr(env, self.abbrev)
        pairs = []
        for (vn, srt), c in zip(L["vs"], L["consts"]):
            val = t.ev(ast.parse(subst[vn], mode="eval").body)
            pairs.append((c, KS.to_real(val) if srt == "R" else val.t))
        body = z3.Implies(z3.And(*L["side"]), L["claim"]) if L["side"] else L["claim"]
        return z3.substitute(body, *pairs)

    def lemma(self, name, vs, side, claim, induct=None, lo="0", using=(), hints=(), pattern=None,
              derived=(), insts=(), ground=False):
        """vs: [(var, sort)] universally quantified; side: conditions on them; induct: name of the
        induction variable (one of vs).  derived: instances of the hypotheses / earlier lemmas, each
        proved as its own obligation and then available; insts: explicit instances of scalar lemmas;
        ground: the main obligation sees ONLY side conditions, derived facts, instances, hints (and the
        induction hypothesis) -- no quantified fact, so the non-linear part is quantifier free."""
        env, consts = self._vars(vs)
        side_f = [fml(env, s, self.abbrev) for s in side]
        claim_f = fml(env, claim, self.abbrev)
        qfacts = list(self.hyps) + [self.quantified(u) for u in using]
        hint_f = [fml(env, h, self.abbrev) for h in hints]
        oid = "%s/lemma.%s/%s" % (P, self.gid, name)
        meta = {"group": self, "name": name, "vs": vs, "side": side, "claim": claim}
        n = lo_t = None
        ind_f = []
        if induct is not None:
            n = env[induct].t
            lo_t = tr(env, self.abbrev).ev(ast.parse(lo, mode="eval").body).t
            ind_f = [n > lo_t]
        der_f = []
        for k, d in enumerate(derived):
            df = fml(env, d, self.abbrev)
            # derived facts may use the step assumption n > lo (they are only used in the step)
            self.jobs.append(("%s.inst%d" % (oid, k + 1), qfacts + side_f + ind_f, df,
                              dict(meta, claim=d, side=list(side) + ([("%s > %s" % (induct, lo))] if induct else []))))
            der_f.append(df)
        inst_f = [self.instance(nm, env, sub) for nm, sub in insts]
        facts = ([] if ground else qfacts) + side_f + der_f + inst_f + hint_f
        if induct is None:
            self.jobs.append((oid + ".direct", facts, claim_f, meta))
        else:
            base_facts = qfacts + side_f + hint_f      # the base case needs no arithmetic
            self.jobs.append((oid + ".base", base_facts + [n <= lo_t], claim_f, meta))
            env_prev = dict(env)
            env_prev[induct] = V("int", n - 1)
            ih = fml(env_prev, claim, self.abbrev)
            side_prev = [fml(env_prev, s, self.abbrev) for s in side]
            ihf = z3.Implies(z3.And(*side_prev), ih) if side_prev else ih
            self.jobs.append((oid + ".step", facts + [n > lo_t, ihf], claim_f, meta))
        pats = None
        if pattern is not None:
            pats = [tr(env, self.abbrev).ev(ast.parse(pattern, mode="eval").body).t]
        self.lemmas[name] = {"consts": consts, "side": side_f, "claim": claim_f, "patterns": pats, "vs": vs}
        self.order.append(name)


# ------------------------------------------------------------------------------------------------
# the environments
# ------------------------------------------------------------------------------------------------
def base_env(tag=""):
    return {"f": arr("f" + tag, nan=True), "pos": arr("pos" + tag), "edges": arr("edges" + tag, nd=1),
            "dt": svar("dt"), "t": svar("t"), "D": ivar("D"), "F": ivar("F"), "n": ivar("n")}


IDX_AB = ["0 <= a", "a < n", "0 <= b", "b < n"]


def chain_unstructured(g, f2, pos2, crel, srel, cfinal=True, extra_using=(), k_hints=(), m_hints_s=()):
    """the congruence chain Cm -> CkU -> CjU (counts) and Sm -> SkU -> SjU (sums) between the
    original arrays (f, pos) and the transformed ones (f2, pos2); crel / srel are format strings
    relating transformed (first %s) and original (second %s) values"""
    A1 = "%s, edges, %s, dt, D, F" % (f2, pos2)
    A0 = "f, edges, pos, dt, D, F"
    eu = list(extra_using)
    g.lemma("Cm", [("a", "I"), ("b", "I"), ("M", "I")], IDX_AB + ["M <= F"],
            crel % ("Cm(%s, a, b, M)" % f2, "Cm(f, a, b, M)"), induct="M", using=eu,
            pattern="Cm(%s, a, b, M)" % f2)
    g.lemma("Sm", [("a", "I"), ("b", "I"), ("M", "I")], IDX_AB + ["M <= F"],
            srel % ("Sm(%s, t, a, b, M)" % f2, "Sm(f, t, a, b, M)"), induct="M", using=eu, hints=m_hints_s,
            pattern="Sm(%s, t, a, b, M)" % f2)
    g.lemma("CkU", [("i", "I"), ("a", "I"), ("K", "I")], ["0 <= a", "a < n", "K <= n"],
            crel % ("CkU(%s, n, i, a, K)" % A1, "CkU(%s, n, i, a, K)" % A0), induct="K", lo="a + 1",
            using=eu + ["Cm"], hints=k_hints, pattern="CkU(%s, n, i, a, K)" % A1)
    g.lemma("SkU", [("i", "I"), ("a", "I"), ("K", "I")], ["0 <= a", "a < n", "K <= n"],
            srel % ("SkU(%s, t, n, i, a, K)" % A1, "SkU(%s, t, n, i, a, K)" % A0), induct="K", lo="a + 1",
            using=eu + ["Sm"], hints=k_hints, pattern="SkU(%s, t, n, i, a, K)" % A1)
    g.lemma("CjU", [("i", "I"), ("J", "I")], ["J <= n"],
            crel % ("CjU(%s, n, i, J)" % A1, "CjU(%s, n, i, J)" % A0), induct="J", using=["CkU"],
            pattern="CjU(%s, n, i, J)" % A1)
    g.lemma("SjU", [("i", "I"), ("J", "I")], ["J <= n"],
            srel % ("SjU(%s, t, n, i, J)" % A1, "SjU(%s, t, n, i, J)" % A0), induct="J", using=["SkU"],
            pattern="SjU(%s, t, n, i, J)" % A1)
    return A1, A0


def _q(r, c):
    return "q%d%d" % (r, c)


def _img(Dv, r, x):
    """text of (Q x)_r over scalar names"""
    return "(" + " + ".join("%s * %s%d" % (_q(r, c), x, c) for c in range(Dv)) + ")"


def _ortho_hyps(Dv):
    return ["%s == %d.0" % (" + ".join("%s * %s" % (_q(r, i), _q(r, j)) for r in range(Dv)), 1 if i == j else 0)
            for i in range(Dv) for j in range(i, Dv)]


def _qvars(Dv):
    return [(_q(r, c), "R") for r in range(Dv) for c in range(Dv)]


def _scalar_isometry(g, Dv):
    vs = _qvars(Dv) + [("xa%d" % c, "R") for c in range(Dv)] + [("xb%d" % c, "R") for c in range(Dv)]
    lhs = " + ".join("(%s - %s) * (%s - %s)" % (_img(Dv, r, "xa"), _img(Dv, r, "xb"), _img(Dv, r, "xa"), _img(Dv, r, "xb"))
                     for r in range(Dv))
    rhs = " + ".join("(xa%d - xb%d) * (xa%d - xb%d)" % (c, c, c, c) for c in range(Dv))
    cert = [("(xa%d - xb%d) * (xa%d - xb%d)" % (i, i, i, i)) if i == j else
            ("2.0 * (xa%d - xb%d) * (xa%d - xb%d)" % (i, i, j, j)) for i in range(Dv) for j in range(i, Dv)]
    g.scalar("isometry", vs, _ortho_hyps(Dv), "%s == %s" % (lhs, rhs), cert=cert)


def _scalar_dot(g, Dv):
    vs = _qvars(Dv) + [("xa%d" % c, "R") for c in range(Dv)] + [("xb%d" % c, "R") for c in range(Dv)] + \
        [("u%d" % c, "R") for c in range(Dv)]
    lhs = " + ".join("(%s - %s) * %s" % (_img(Dv, r, "xa"), _img(Dv, r, "xb"), _img(Dv, r, "u")) for r in range(Dv))
    rhs = " + ".join("(xa%d - xb%d) * u%d" % (c, c, c) for c in range(Dv))
    cert = [("(xa%d - xb%d) * u%d" % (i, i, i)) if i == j else
            ("(xa%d - xb%d) * u%d + (xa%d - xb%d) * u%d" % (i, i, j, j, j, i)) for i in range(Dv) for j in range(i, Dv)]
    g.scalar("dot-invariant", vs, _ortho_hyps(Dv), "%s == %s" % (lhs, rhs), cert=cert)


def _scalar_band(g, Dv):
    vs = _qvars(Dv) + [("xa%d" % c, "R") for c in range(Dv)] + [("xb%d" % c, "R") for c in range(Dv)] + \
        [("u%d" % c, "R") for c in range(Dv)] + [("sp", "R")]
    z = lambda r: "((%s - %s) - sp * %s)" % (_img(Dv, r, "xa"), _img(Dv, r, "xb"), _img(Dv, r, "u"))
    w = lambda c: "((xa%d - xb%d) - sp * u%d)" % (c, c, c)
    lhs = " + ".join("%s * %s" % (z(r), z(r)) for r in range(Dv))
    rhs = " + ".join("%s * %s" % (w(c), w(c)) for c in range(Dv))
    cert = [("%s * %s" % (w(i), w(i))) if i == j else ("2.0 * %s * %s" % (w(i), w(j)))
            for i in range(Dv) for j in range(i, Dv)]
    g.scalar("band-invariant", vs, _ortho_hyps(Dv), "%s == %s" % (lhs, rhs), cert=cert)


def _qsub(Dv, a="a", b="b", pos="pos", u=None, d="d"):
    sub = {_q(r, c): "Q[%d, %d]" % (r, c) for r in range(Dv) for c in range(Dv)}
    sub.update({"xa%d" % c: "%s[%d, %s]" % (pos, c, a) for c in range(Dv)})
    sub.update({"xb%d" % c: "%s[%d, %s]" % (pos, c, b) for c in range(Dv)})
    if u:
        sub.update({"u%d" % c: "%s[%s, %d]" % (u, d, c) for c in range(Dv)})
    return sub


def _img_facts(Dv, who, x):
    if who == "pos":
        return ["pos2[%d, %s] == %s" % (r, x, " + ".join("Q[%d, %d] * pos[%d, %s]" % (r, c, c, x) for c in range(Dv)))
                for r in range(Dv)]
    return ["dirs2[%s, %d] == %s" % (x, r, " + ".join("Q[%d, %d] * dirs[%s, %d]" % (r, c, x, c) for c in range(Dv)))
            for r in range(Dv)]


def _ortho_texts(Dv):
    return ["%s == %d" % (" + ".join("Q[%d, %d] * Q[%d, %d]" % (r, i, r, j) for r in range(Dv)), 1 if i == j else 0)
            for i in range(Dv) for j in range(i, Dv)]


def build_groups():
    groups = []
    same = "%s == %s"

    # ---------------------------------------------------------------- f + c
    env = base_env()
    env.update(f2=arr("f2", nan=True), c=rvar("c"))
    g = Group("field-plus-constant", env,
              ["forall(m, 0, F, forall(x, 0, n, f2[m, x] == f[m, x] + c and "
               "iff(isnan(f2[m, x]), isnan(f[m, x]))))"],
              functions=["variogram/estimator.pyx:unstructured"], native=_nat_fplusc,
              doc="adding a constant to every field leaves counts and variogram of every bin unchanged")
    A1, A0 = chain_unstructured(g, "f2", "pos", same, same)
    g.lemma("counts-unchanged", [("i", "I")], [], "CjU(%s, n, i, n) == CjU(%s, n, i, n)" % (A1, A0), using=["CjU"])
    g.lemma("variogram-unchanged", [("i", "I")], [],
            "norm(t, SjU(%s, t, n, i, n), CjU(%s, n, i, n)) == norm(t, SjU(%s, t, n, i, n), CjU(%s, n, i, n))"
            % (A1, A1, A0, A0), using=["CjU", "SjU"])
    groups.append(g)

    # ---------------------------------------------------------------- a * f
    env = base_env()
    env.update(f2=arr("f2", nan=True), s=rvar("s"))
    G_ = "ite(t == 'm', s * s, sqrt(fabs(s)))"
    g = Group("field-times-factor", env,
              ["forall(m, 0, F, forall(x, 0, n, f2[m, x] == s * f[m, x] and "
               "iff(isnan(f2[m, x]), isnan(f[m, x]))))", "t == 'm' or t == 'c'"],
              functions=["variogram/estimator.pyx:unstructured"], native=_nat_ftimes,
              doc="a field factor s scales the Matheron and the Cressie estimate by s^2")
    srel = "%s == " + G_ + " * %s"
    A1 = "f2, edges, pos, dt, D, F"
    A0 = "f, edges, pos, dt, D, F"
    SQRT_S = "sqrt(fabs(s)) * sqrt(fabs(s)) == fabs(s)"
    g.lemma("Cm", [("a", "I"), ("b", "I"), ("M", "I")], IDX_AB + ["M <= F"], "Cm(f2, a, b, M) == Cm(f, a, b, M)",
            induct="M", pattern="Cm(f2, a, b, M)")
    DER = ["f2[M - 1, a] == s * f[M - 1, a]", "f2[M - 1, b] == s * f[M - 1, b]",
           "iff(isnan(f2[M - 1, a]), isnan(f[M - 1, a]))", "iff(isnan(f2[M - 1, b]), isnan(f[M - 1, b]))"]
    g.scalar("square-scales", [("sc", "R"), ("x", "R"), ("y", "R")], [],
             "(sc * x - sc * y) * (sc * x - sc * y) == sc * sc * ((x - y) * (x - y))")
    g.scalar("distribute", [("k", "R"), ("A", "R"), ("B", "R")], [], "k * (A + B) == k * A + k * B")
    g.lemma("Sm[matheron]", [("a", "I"), ("b", "I"), ("M", "I")], IDX_AB + ["M <= F", "t == 'm'"],
            "Sm(f2, t, a, b, M) == s * s * Sm(f, t, a, b, M)", induct="M", ground=True, derived=DER,
            insts=[("square-scales", {"sc": "s", "x": "f[M - 1, b]", "y": "f[M - 1, a]"}),
                   ("distribute", {"k": "s * s", "A": "Sm(f, t, a, b, M - 1)",
                                   "B": "(f[M - 1, b] - f[M - 1, a]) * (f[M - 1, b] - f[M - 1, a])"})])
    g.lemma("Sm[cressie]", [("a", "I"), ("b", "I"), ("M", "I")], IDX_AB + ["M <= F", "t == 'c'"],
            "Sm(f2, t, a, b, M) == sqrt(fabs(s)) * Sm(f, t, a, b, M)", induct="M", ground=True,
            derived=DER + ["f2[M - 1, b] - f2[M - 1, a] == s * (f[M - 1, b] - f[M - 1, a])"],
            # T4 instance sqrt(|u v|) = sqrt|u| sqrt|v| with u = s, v = f_b - f_a, written on the term
            # u v = f2_b - f2_a (substitution of equals; the equality is the derived fact above)
            hints=["implies(f2[M - 1, b] - f2[M - 1, a] == s * (f[M - 1, b] - f[M - 1, a]), "
                   "sqrt(fabs(f2[M - 1, b] - f2[M - 1, a])) == sqrt(fabs(s)) * sqrt(fabs(f[M - 1, b] - f[M - 1, a])))"])
    g.lemma("Sm", [("a", "I"), ("b", "I"), ("M", "I")], IDX_AB + ["M <= F"],
            srel % ("Sm(f2, t, a, b, M)", "Sm(f, t, a, b, M)"), using=["Sm[matheron]", "Sm[cressie]"],
            pattern="Sm(f2, t, a, b, M)")
    g.lemma("CkU", [("i", "I"), ("a", "I"), ("K", "I")], ["0 <= a", "a < n", "K <= n"],
            "CkU(%s, n, i, a, K) == CkU(%s, n, i, a, K)" % (A1, A0), induct="K", lo="a + 1", using=["Cm"],
            pattern="CkU(%s, n, i, a, K)" % A1)
    g.lemma("SkU", [("i", "I"), ("a", "I"), ("K", "I")], ["0 <= a", "a < n", "K <= n"],
            srel % ("SkU(%s, t, n, i, a, K)" % A1, "SkU(%s, t, n, i, a, K)" % A0), induct="K", lo="a + 1",
            using=["Sm"], ground=True,
            derived=["Sm(f2, t, a, K - 1, F) == %s * Sm(f, t, a, K - 1, F)" % G_],
            pattern="SkU(%s, t, n, i, a, K)" % A1)
    g.lemma("CjU", [("i", "I"), ("J", "I")], ["J <= n"],
            "CjU(%s, n, i, J) == CjU(%s, n, i, J)" % (A1, A0), induct="J", using=["CkU"],
            pattern="CjU(%s, n, i, J)" % A1)
    g.lemma("SjU", [("i", "I"), ("J", "I")], ["J <= n"],
            srel % ("SjU(%s, t, n, i, J)" % A1, "SjU(%s, t, n, i, J)" % A0), induct="J", using=["SkU"], ground=True,
            derived=["SkU(%s, t, n, i, J - 1, n) == %s * SkU(%s, t, n, i, J - 1, n)" % (A1, G_, A0)],
            pattern="SjU(%s, t, n, i, J)" % A1)
    g.lemma("counts-unchanged", [("i", "I")], [], "CjU(%s, n, i, n) == CjU(%s, n, i, n)" % (A1, A0), using=["CjU"])
    g.scalar("g4", [("g", "R"), ("sc", "R")], ["g * g == fabs(sc)"], "g * g * g * g == sc * sc")
    g.scalar("cressie-core", [("S", "R"), ("N", "R"), ("g", "R"), ("sc", "R"), ("den", "R")],
             ["g * g * g * g == sc * sc", "N >= 1.0", "den > 0.0"],
             "0.5 * ((g * S) / N) ** 4 / den == sc * sc * (0.5 * (S / N) ** 4 / den)")
    g.scalar("matheron-core", [("S", "R"), ("N", "R"), ("sc", "R")], ["N >= 1.0"],
             "(sc * sc * S) / (2.0 * N) == sc * sc * (S / (2.0 * N))")
    g.scalar("denominator", [("c", "I")], ["c >= 1"], "0.457 + 0.494 / c + 0.045 / (c * c) > 0.0")
    MX = "max(c, 1)"
    DEN = "(0.457 + 0.494 / max(c, 1) + 0.045 / (max(c, 1) * max(c, 1)))"
    g.lemma("norm-scales", [("S", "R"), ("c", "I")], [], "norm(t, %s * S, c) == s * s * norm(t, S, c)" % G_,
            ground=True, derived=["t == 'm' or t == 'c'"], hints=[SQRT_S],
            insts=[("g4", {"g": "sqrt(fabs(s))", "sc": "s"}),
                   ("denominator", {"c": MX}),
                   ("cressie-core", {"S": "S", "N": "real(%s)" % MX, "g": "sqrt(fabs(s))", "sc": "s", "den": DEN}),
                   ("matheron-core", {"S": "S", "N": "real(%s)" % MX, "sc": "s"})])
    g.lemma("variogram-scales-with-s^2", [("i", "I")], [],
            "norm(t, SjU(%s, t, n, i, n), CjU(%s, n, i, n)) == s * s * norm(t, SjU(%s, t, n, i, n), CjU(%s, n, i, n))"
            % (A1, A1, A0, A0), ground=True, using=["CjU", "SjU", "norm-scales"],
            derived=["CjU(%s, n, i, n) == CjU(%s, n, i, n)" % (A1, A0),
                     "SjU(%s, t, n, i, n) == %s * SjU(%s, t, n, i, n)" % (A1, G_, A0),
                     "norm(t, %s * SjU(%s, t, n, i, n), CjU(%s, n, i, n)) == s * s * norm(t, SjU(%s, t, n, i, n), CjU(%s, n, i, n))"
                     % (G_, A0, A0, A0, A0)])
    groups.append(g)

    # ---------------------------------------------------------------- translation (all D)
    env = base_env()
    env.update(pos2=arr("pos2"), sh=arr("shift", nd=1))
    g = Group("translation", env,
              ["forall(d, 0, D, forall(x, 0, n, pos2[d, x] == pos[d, x] + sh[d]))", "dt == 'e'"],
              functions=["variogram/estimator.pyx:unstructured", "variogram/estimator.pyx:dist_euclid"],
              native=_nat_translation,
              doc="translating all points leaves every pair distance, hence counts and variogram, unchanged")
    g.lemma("sqd", [("a", "I"), ("b", "I"), ("E", "I")], IDX_AB + ["E <= D"],
            "sqd(pos2, a, b, E) == sqd(pos, a, b, E)", induct="E", pattern="sqd(pos2, a, b, E)")
    g.lemma("dist", [("a", "I"), ("b", "I")], IDX_AB, "dist(pos2, dt, a, b, D) == dist(pos, dt, a, b, D)",
            using=["sqd"], pattern="dist(pos2, dt, a, b, D)")
    A1, A0 = chain_unstructured(g, "f", "pos2", same, same, extra_using=["dist"])
    g.lemma("counts-unchanged", [("i", "I")], [], "CjU(%s, n, i, n) == CjU(%s, n, i, n)" % (A1, A0), using=["CjU"])
    g.lemma("variogram-unchanged", [("i", "I")], [],
            "norm(t, SjU(%s, t, n, i, n), CjU(%s, n, i, n)) == norm(t, SjU(%s, t, n, i, n), CjU(%s, n, i, n))"
            % (A1, A1, A0, A0), using=["CjU", "SjU"])
    groups.append(g)

    # ---------------------------------------------------------------- orthogonal map, D = 1, 2, 3
    for Dv in (1, 2, 3):
        env = base_env()
        env.update(pos2=arr("pos2"), Q=arr("Q"))
        ortho = ["%s == %d" % (" + ".join("Q[%d, %d] * Q[%d, %d]" % (r, i, r, j) for r in range(Dv)),
                               1 if i == j else 0) for i in range(Dv) for j in range(i, Dv)]
        img = ["forall(x, 0, n, pos2[%d, x] == %s)" % (r, " + ".join("Q[%d, %d] * pos[%d, x]" % (r, c, c)
                                                                      for c in range(Dv))) for r in range(Dv)]
        g = Group("orthogonal-map[D=%d]" % Dv, env, ["D == %d" % Dv, "dt == 'e'"] + ortho + img,
                  functions=["variogram/estimator.pyx:unstructured", "variogram/estimator.pyx:dist_euclid"],
                  native=lambda rng, Dv=Dv: _nat_orth(rng, Dv),
                  doc="pos -> Q pos with Q^T Q = I (rotations and reflections) leaves distances unchanged")
        g.depth = 6
        _scalar_isometry(g, Dv)
        g.lemma("sqd", [("a", "I"), ("b", "I")], IDX_AB, "sqd(pos2, a, b, D) == sqd(pos, a, b, D)", ground=True,
                derived=["D == %d" % Dv] + _ortho_texts(Dv) + _img_facts(Dv, "pos", "a") + _img_facts(Dv, "pos", "b"),
                insts=[("isometry", _qsub(Dv))], pattern="sqd(pos2, a, b, D)")
        g.lemma("dist", [("a", "I"), ("b", "I")], IDX_AB, "dist(pos2, dt, a, b, D) == dist(pos, dt, a, b, D)",
                using=["sqd"], pattern="dist(pos2, dt, a, b, D)")
        A1, A0 = chain_unstructured(g, "f", "pos2", same, same, extra_using=["dist"])
        g.lemma("counts-unchanged", [("i", "I")], [], "CjU(%s, n, i, n) == CjU(%s, n, i, n)" % (A1, A0), using=["CjU"])
        g.lemma("variogram-unchanged", [("i", "I")], [],
                "norm(t, SjU(%s, t, n, i, n), CjU(%s, n, i, n)) == norm(t, SjU(%s, t, n, i, n), CjU(%s, n, i, n))"
                % (A1, A1, A0, A0), using=["CjU", "SjU"])
        groups.append(g)

    # ---------------------------------------------------------------- directional: (pos, dir) -> (Q pos, Q dir)
    for Dv in (2, 3):
        env = {"pos": arr("pos"), "pos2": arr("pos2"), "dirs": arr("dirs"), "dirs2": arr("dirs2"),
               "Q": arr("Q"), "D": ivar("D"), "n": ivar("n"), "Dn": ivar("Dn"), "tol": rvar("tol"),
               "bw": rvar("bw")}
        ortho = ["%s == %d" % (" + ".join("Q[%d, %d] * Q[%d, %d]" % (r, i, r, j) for r in range(Dv)),
                               1 if i == j else 0) for i in range(Dv) for j in range(i, Dv)]
        img = ["forall(x, 0, n, pos2[%d, x] == %s)" % (r, " + ".join("Q[%d, %d] * pos[%d, x]" % (r, c, c)
                                                                      for c in range(Dv))) for r in range(Dv)]
        img += ["forall(d, 0, Dn, dirs2[d, %d] == %s)" % (r, " + ".join("Q[%d, %d] * dirs[d, %d]" % (r, c, c)
                                                                         for c in range(Dv))) for r in range(Dv)]
        g = Group("directional-rotates-with-coordinates[D=%d]" % Dv, env, ["D == %d" % Dv] + ortho + img,
                  functions=["variogram/estimator.pyx:directional", "variogram/estimator.pyx:dir_test"],
                  native=lambda rng, Dv=Dv: _nat_orth_dir(rng, Dv),
                  doc="rotating points and direction vectors together leaves angle and band tests unchanged")
        side = IDX_AB + ["0 <= d", "d < Dn"]
        g.depth = 6
        _scalar_isometry(g, Dv)
        _scalar_dot(g, Dv)
        _scalar_band(g, Dv)
        common = ["D == %d" % Dv] + _ortho_texts(Dv) + _img_facts(Dv, "pos", "a") + _img_facts(Dv, "pos", "b")
        g.lemma("sqd", [("a", "I"), ("b", "I")], IDX_AB, "sqd(pos2, a, b, D) == sqd(pos, a, b, D)", ground=True,
                derived=common, insts=[("isometry", _qsub(Dv))], pattern="sqd(pos2, a, b, D)")
        g.lemma("sprod", [("a", "I"), ("b", "I"), ("d", "I")], side,
                "sprod(pos2, dirs2, a, b, d, D) == sprod(pos, dirs, a, b, d, D)", ground=True,
                derived=common + _img_facts(Dv, "dirs", "d"), insts=[("dot-invariant", _qsub(Dv, u="dirs"))],
                pattern="sprod(pos2, dirs2, a, b, d, D)")
        sb = _qsub(Dv, u="dirs")
        sb["sp"] = "s"
        g.lemma("bd2", [("a", "I"), ("b", "I"), ("d", "I"), ("s", "R")], side,
                "bd2(pos2, dirs2, a, b, d, s, D) == bd2(pos, dirs, a, b, d, s, D)", ground=True,
                derived=common + _img_facts(Dv, "dirs", "d"), insts=[("band-invariant", sb)],
                pattern="bd2(pos2, dirs2, a, b, d, s, D)")
        g.lemma("dirtest", [("a", "I"), ("b", "I"), ("d", "I"), ("dst", "R")], side,
                "iff(dirtest(pos2, dirs2, D, dst, tol, bw, a, b, d), dirtest(pos, dirs, D, dst, tol, bw, a, b, d))",
                using=["sprod", "bd2"])
        g.lemma("pair-membership", [("a", "I"), ("b", "I"), ("d", "I")], side,
                "dist_e(pos2, a, b, D) == dist_e(pos, a, b, D) and "
                "iff(dirtest(pos2, dirs2, D, dist_e(pos2, a, b, D), tol, bw, b, a, d), "
                "dirtest(pos, dirs, D, dist_e(pos, a, b, D), tol, bw, b, a, d))",
                using=["sqd", "dirtest"])
        groups.append(g)

    # ---------------------------------------------------------------- all-NaN point contributes nothing
    env = base_env()
    env.update(p=ivar("p"))
    g = Group("all-nan-point-contributes-nothing", env,
              ["0 <= p", "p < n", "forall(m, 0, F, isnan(f[m, p]))"],
              functions=["variogram/estimator.pyx:unstructured"], native=_nat_nanpoint,
              doc="a point whose value is NaN in every field contributes to no bin (all sizes); the "
                  "equality with the estimate on the point list without that point is the bounded group "
                  "nan-point-equals-removed-point")
    g.lemma("Cm-first", [("b", "I"), ("M", "I")], ["0 <= b", "b < n", "M <= F"], "Cm(f, p, b, M) == 0", induct="M")
    g.lemma("Cm-second", [("a", "I"), ("M", "I")], ["0 <= a", "a < n", "M <= F"], "Cm(f, a, p, M) == 0", induct="M")
    g.lemma("Sm-first", [("b", "I"), ("M", "I")], ["0 <= b", "b < n", "M <= F"], "Sm(f, t, p, b, M) == 0", induct="M")
    g.lemma("Sm-second", [("a", "I"), ("M", "I")], ["0 <= a", "a < n", "M <= F"], "Sm(f, t, a, p, M) == 0", induct="M")
    g.lemma("no-pair-with-p-as-first-point", [("i", "I"), ("K", "I")], ["K <= n"],
            "CkU(f, %s, n, i, p, K) == 0 and SkU(f, %s, t, n, i, p, K) == 0" % (UA, UA), induct="K", lo="p + 1",
            using=["Cm-first", "Sm-first"])
    groups.append(g)

    # ---------------------------------------------------------------- symmetry of the pair term
    env = base_env()
    g = Group("pair-term-symmetry", env, ["dt == 'e' or dt == 'h'", "t == 'm' or t == 'c'"],
              functions=["variogram/estimator.pyx:unstructured"], native=_nat_base_h,
              doc="distance, number of valid fields and estimator sum of a pair do not depend on the order "
                  "of the two points (estimators are even in the difference)")
    SINX = "(pos[%d, b] - pos[%d, a]) * (M_PI / 180.0) / 2.0"
    g.lemma("sqd", [("a", "I"), ("b", "I"), ("E", "I")], [], "sqd(pos, a, b, E) == sqd(pos, b, a, E)", induct="E",
            pattern="sqd(pos, a, b, E)")
    g.lemma("hav", [("a", "I"), ("b", "I")], [], "hav_a(pos, a, b) == hav_a(pos, b, a)",
            hints=["sin(-(%s)) == -sin(%s)" % (SINX % (r, r), SINX % (r, r)) for r in (0, 1)] +
                  ["(pos[%d, a] - pos[%d, b]) * (M_PI / 180.0) / 2.0 == -(%s)" % (r, r, SINX % (r, r)) for r in (0, 1)],
            pattern="hav_a(pos, a, b)")
    g.lemma("dist", [("a", "I"), ("b", "I")], [], "dist(pos, dt, a, b, D) == dist(pos, dt, b, a, D)",
            using=["sqd", "hav"], pattern="dist(pos, dt, a, b, D)")
    g.lemma("Cm", [("a", "I"), ("b", "I"), ("M", "I")], [], "Cm(f, a, b, M) == Cm(f, b, a, M)", induct="M",
            pattern="Cm(f, a, b, M)")
    g.lemma("Sm", [("a", "I"), ("b", "I"), ("M", "I")], [], "Sm(f, t, a, b, M) == Sm(f, t, b, a, M)", induct="M",
            pattern="Sm(f, t, a, b, M)")
    groups.append(g)

    # ---------------------------------------------------------------- relabelling of points (perm uninterpreted)
    env = base_env()
    env.update(f2=arr("f2", nan=True), pos2=arr("pos2"), n2=ivar("n2"))
    g = Group("relabelled-points", env,
              ["dt == 'e' or dt == 'h'", "implies(dt == 'h', D >= 2)",
               "forall(x, 0, n2, 0 <= perm(x) and perm(x) < n)",
               "forall(d, 0, D, forall(x, 0, n2, pos2[d, x] == pos[d, perm(x)]))",
               "forall(m, 0, F, forall(x, 0, n2, f2[m, x] == f[m, perm(x)] and "
               "iff(isnan(f2[m, x]), isnan(f[m, perm(x)]))))"],
              functions=["variogram/estimator.pyx:unstructured"],
              doc="if point x of a second data set is point perm(x) of the first, the pair term of (a, b) in "
                  "the second set is the pair term of (perm a, perm b) in the first (perm: any index map)")
    S2 = ["0 <= a", "a < n2", "0 <= b", "b < n2"]
    g.lemma("sqd", [("a", "I"), ("b", "I"), ("E", "I")], S2 + ["E <= D"],
            "sqd(pos2, a, b, E) == sqd(pos, perm(a), perm(b), E)", induct="E", pattern="sqd(pos2, a, b, E)")
    g.lemma("hav", [("a", "I"), ("b", "I")], S2 + ["D >= 2"], "hav_a(pos2, a, b) == hav_a(pos, perm(a), perm(b))",
            pattern="hav_a(pos2, a, b)")
    g.lemma("dist", [("a", "I"), ("b", "I")], S2, "dist(pos2, dt, a, b, D) == dist(pos, dt, perm(a), perm(b), D)",
            using=["sqd", "hav"], pattern="dist(pos2, dt, a, b, D)")
    g.lemma("Cm", [("a", "I"), ("b", "I"), ("M", "I")], S2 + ["M <= F"],
            "Cm(f2, a, b, M) == Cm(f, perm(a), perm(b), M)", induct="M", pattern="Cm(f2, a, b, M)")
    g.lemma("Sm", [("a", "I"), ("b", "I"), ("M", "I")], S2 + ["M <= F"],
            "Sm(f2, t, a, b, M) == Sm(f, t, perm(a), perm(b), M)", induct="M", pattern="Sm(f2, t, a, b, M)")
    groups.append(g)

    # ---------------------------------------------------------------- unit conversion of bin edges
    env = {"edges": arr("edges", nd=1), "edges2": arr("edges2", nd=1), "gsc": rvar("gsc"), "nb": ivar("nb")}
    g = Group("great-circle-unit-conversion", env,
              ["gsc > 0.0", "forall(x, 0, nb + 1, edges2[x] == edges[x] / gsc)"],
              functions=["variogram/variogram.py:vario_estimate"], native=_nat_units,
              doc="binning a great-circle angle zeta against edges/geo_scale equals binning the length "
                  "geo_scale*zeta against the edges given in that length unit")
    g.lemma("inbin", [("i", "I"), ("z", "R")], ["0 <= i", "i < nb"],
            "iff(inbin(edges2, i, z), inbin(edges, i, gsc * z))")
    groups.append(g)
    return groups


# ------------------------------------------------------------------------------------------------
# native samplers (hypotheses hold by construction)
# ------------------------------------------------------------------------------------------------
def _nat_base(rng, D=None):
    n = int(rng.integers(0, 6))
    F = int(rng.integers(0, 3))
    D = int(rng.integers(1, 4)) if D is None else D
    f = rng.normal(size=(F, n))
    f[rng.random((F, n)) < 0.2] = np.nan
    pos = rng.integers(0, 4, size=(D, n)).astype(float) if rng.random() < 0.5 else rng.normal(size=(D, n))
    nb = int(rng.integers(1, 4))
    edges = np.concatenate([[0.0], np.cumsum(rng.integers(1, 3, size=nb).astype(float))])
    return {"f": f, "pos": pos, "edges": edges, "dt": "e", "t": "mc"[int(rng.integers(0, 2))],
            "D": D, "F": F, "n": n}


def _nat_base_h(rng):
    e = _nat_base(rng)
    if rng.random() < 0.4:
        e = _nat_base(rng, 2)
        e["dt"] = "h"
        e["pos"] = np.vstack([rng.uniform(-80, 80, size=e["n"]), rng.uniform(-170, 170, size=e["n"])])
    return e


def _nat_fplusc(rng):
    e = _nat_base(rng)
    e["c"] = float(rng.normal())
    e["f2"] = e["f"] + e["c"]
    return e


def _nat_ftimes(rng):
    e = _nat_base(rng)
    e["s"] = float(rng.normal())
    e["f2"] = e["f"] * e["s"]
    return e


def _nat_translation(rng):
    e = _nat_base(rng)
    e["sh"] = rng.integers(-3, 4, size=e["D"]).astype(float)
    e["pos2"] = e["pos"] + e["sh"][:, None]
    return e


def _rand_orth(rng, D):
    if D == 1:
        return np.array([[float(rng.choice([-1.0, 1.0]))]])
    # signed permutation matrices are exactly orthogonal in floating point
    perm = rng.permutation(D)
    Q = np.zeros((D, D))
    for r in range(D):
        Q[r, perm[r]] = float(rng.choice([-1.0, 1.0]))
    return Q


def _nat_orth(rng, D):
    e = _nat_base(rng, D)
    e["Q"] = _rand_orth(rng, D)
    e["pos2"] = e["Q"] @ e["pos"]
    return e


def _nat_orth_dir(rng, D):
    n = int(rng.integers(1, 5))
    Dn = int(rng.integers(1, 3))
    pos = rng.integers(0, 4, size=(D, n)).astype(float)
    dirs = rng.normal(size=(Dn, D))
    Q = _rand_orth(rng, D)
    return {"pos": pos, "pos2": Q @ pos, "dirs": dirs, "dirs2": dirs @ Q.T, "Q": Q, "D": D, "n": n, "Dn": Dn,
            "tol": float(rng.uniform(0.2, 1.2)), "bw": float(rng.choice([-1.0, 0.7, 2.0]))}


def _nat_nanpoint(rng):
    e = _nat_base(rng)
    if e["n"] == 0:
        e = _nat_base(np.random.default_rng(int(rng.integers(1, 10 ** 6))))
    while e["n"] == 0:
        e = _nat_base(rng)
    e["p"] = int(rng.integers(0, e["n"]))
    e["f"][:, e["p"]] = np.nan
    return e


def _nat_units(rng):
    nb = int(rng.integers(1, 4))
    edges = np.concatenate([[0.0], np.cumsum(rng.integers(1, 3, size=nb).astype(float))])
    g = float(rng.choice([1.0, 2.0, 4.0, 0.5]))
    return {"edges": edges, "edges2": edges / g, "gsc": g, "nb": nb}


def native_falsify(meta, seed, tries=120):
    """evaluate the lemma statement natively on random data; returns a witness dict or None"""
    g = meta["group"]
    if g.native is None:
        return None
    rng = np.random.default_rng([seed, zlib.crc32((g.gid + meta["name"]).encode())])
    abbrev = KS.parse_abbrev(g.abbrev)
    for _ in range(tries):
        env = g.native(rng)
        lim = max(int(env.get("n", 3)), int(env.get("F", 2)), int(env.get("D", 3)), 3) + 1
        for nm, srt in meta["vs"]:
            if srt == "I":
                env[nm] = int(rng.integers(0, lim))
            elif srt == "R":
                env[nm] = float(rng.normal())
        nat = KS.Native(SPEC_TABLE, env, abbrev, {})
        try:
            if not all(nat.check(s) for s in meta["side"]):
                continue
            if not all(nat.check(h) for h in g.hyp_texts):
                continue
            if not nat.check(meta["claim"]):
                return {"class": "spec-level lemma false on concrete arrays", "lemma": meta["claim"],
                        "values": core._jsonable({k: v for k, v in env.items()}), "detail": nat.fail}
        except (KS.Mismatch, KS.SpecError, IndexError, ZeroDivisionError, OverflowError):
            continue
    return None


# ------------------------------------------------------------------------------------------------
# bounded lemmas: complete unfolding for concrete sizes
# ------------------------------------------------------------------------------------------------
def bounded_jobs(groups, tier):
    """combinatorial step for n <= 4: with the all-size lemmas (pair term of relabelled points, symmetry
    of the pair term, all-NaN point contributes nothing) as quantified facts and the pair-level spec
    functions dist / Cm / Sm kept ABSTRACT, the double sums over pairs are unfolded for a concrete
    number of points and compared.  Number of fields, dimension, distance type, estimator, bin edges,
    all values stay symbolic."""
    by = {g.gid: g for g in groups}
    rel, sym, nanp = by["relabelled-points"], by["pair-term-symmetry"], by["all-nan-point-contributes-nothing"]
    env = dict(rel.env)
    env["i"] = ivar("i")
    env["p"] = nanp.env["p"]
    lem = [rel.quantified(x) for x in ("dist", "Cm", "Sm")] + [sym.quantified(x) for x in ("dist", "Cm", "Sm")]
    base_f = list(rel.hyps) + [h for h in sym.hyps] + lem
    A2 = "f2, edges, pos2, dt, D, F"
    A0 = "f, edges, pos, dt, D, F"
    goal_txt = ("CjU(%s, n2, i, n2) == CjU(%s, n, i, n) and SjU(%s, t, n2, i, n2) == SjU(%s, t, n, i, n)"
                % (A2, A0, A2, A0))
    goal = fml(env, goal_txt)
    jobs = []
    opaque = ("dist", "Cm", "Sm")
    for n in (2, 3, 4):
        for (p, q) in itertools.combinations(range(n), 2):
            perm = list(range(n))
            perm[p], perm[q] = q, p
            facts = base_f + [fml(env, "n == %d and n2 == %d" % (n, n))] + \
                [fml(env, "perm(%d) == %d" % (x, perm[x])) for x in range(n)]
            jobs.append(("%s/lemma.permutation-invariance/transposition(%d,%d)[n=%d]" % (P, p, q, n),
                         facts, goal, {"bounded": True}, opaque))
        for p in range(n):
            keep = [x for x in range(n) if x != p]
            facts = base_f + list(nanp.hyps) + [nanp.quantified(x) for x in ("Cm-first", "Cm-second", "Sm-first", "Sm-second")] + \
                [fml(env, "n == %d and n2 == %d and p == %d" % (n, n - 1, p))] + \
                [fml(env, "perm(%d) == %d" % (x, keep[x])) for x in range(n - 1)]
            jobs.append(("%s/lemma.nan-point-equals-removed-point/point(%d)[n=%d]" % (P, p, n),
                         facts, goal, {"bounded": True}, opaque))
    return jobs


BOUND_TEXT = ("combinatorial re-indexing of the pair sums enumerated for n <= 4 points (all transpositions / "
              "every removable point); number of fields, dimension, distance type, estimator, bin, values and "
              "NaN flags symbolic (pair-level facts are the all-size lemmas relabelled-points, "
              "pair-term-symmetry, all-nan-point-contributes-nothing)")


# ------------------------------------------------------------------------------------------------
def run(rep, tier, seed, only=None):
    t0 = time.time()
    groups = build_groups()
    jobs, index = [], []
    for g in groups:
        for (oid, facts, goal, meta) in g.jobs:
            if only and only not in oid:
                continue
            job = {"facts": facts, "goal": goal, "kind": "vc", "params": None, "no_external": True}
            if g.depth:
                job["depth"] = g.depth
            jobs.append(job)
            index.append((oid, meta, g.functions, None))
    for (oid, facts, goal, meta, opaque) in bounded_jobs(groups, tier):
        if only and only not in oid:
            continue
        jobs.append({"facts": facts, "goal": goal, "kind": "vc", "params": None, "no_external": True,
                     "depth": 12, "opaque": opaque})
        index.append((oid, meta, ("variogram/estimator.pyx:unstructured",), BOUND_TEXT))
    # vacuity canaries: the hypotheses of every group must not be contradictory
    ncan = 0
    if not only:
        for g in groups:
            jobs.append({"facts": list(g.hyps), "goal": z3.BoolVal(False), "kind": "canary", "params": None})
            index.append(("canary:" + g.gid, None, g.functions, None))
            ncan += 1
    results = kern_solve.solve_all(SPECS, jobs, workers=12)
    ndone = 0
    for (oid, meta, fns, bound), r in zip(index, results):
        if oid.startswith("canary:"):
            rep.canaries += 1
            if r["status"] != "unsat":
                rep.canaries_ok += 1
                if r["status"] == "sat":
                    rep.covers += 1
            else:
                rep.error("hypotheses of lemma group %s are contradictory" % oid[7:])
            continue
        if r["status"] == "unsat":
            rep.add(core.Obligation(oid, core.BOUNDED if bound else core.DISCHARGED, backend=r["backend"],
                                    time_s=r["time"], bound=bound, functions=fns,
                                    detail="" if bound else "induction schema / direct, spec-level"))
            ndone += 1
            continue
        if r["status"] == "error":
            rep.add(core.Obligation(oid, core.ERROR, time_s=r["time"], detail=r["detail"], functions=fns))
            continue
        wit = native_falsify(meta, seed) if "group" in meta else None
        if wit is not None:
            rep.add(core.Obligation(oid, core.FAILED, time_s=r["time"], detail=r["detail"], witness=wit,
                                    functions=fns, replay={"kind": "lemma", "obligation": oid}))
        else:
            rep.add(core.Obligation(oid, core.UNDECIDED, time_s=r["time"],
                                    detail="spec-level lemma not proved, no native counterexample: " + r["detail"],
                                    functions=fns, bound=bound))
    rep.extra["lemma_groups"] = {g.gid: {"doc": g.doc, "hypotheses": g.hyp_texts, "lemmas": g.order}
                                 for g in groups}
    rep.extra.setdefault("timing", {})["lemmas_s"] = round(time.time() - t0, 1)
