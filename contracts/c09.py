r"""C09 layer B -- what the real ``vario_estimate`` / ``vario_estimate_axis`` hand to the kernels.

The compiled estimator kernels imported into ``gstools.variogram.variogram`` (module globals
``unstructured_c``, ``directional_c``, ``structured_c``, ``ma_structured_c``) and the call of
``remove_trend_norm_mean`` are replaced (verifier process only) by CAPTURE stubs that record their
arguments.  The contracts state, from the docstring of ``vario_estimate`` and the property
statement, exactly which arrays must arrive at the kernel; together with the kernel postcondition
(C08) and the spec-level lemmas of layer A this gives the invariances of C09.

Values (coordinates, field values, bin edges, direction vectors, angles, tolerances, geo_scale) are
symbolic reals; shapes, NaN / no_data / mask placement patterns, index sets of the sub-sampling and
option combinations are enumerated (obligations are reported as bounded).  NaN is not a real: NaN
and no_data values are placed as concrete floats at enumerated positions.
"""
import itertools
import warnings

import numpy as np
import z3

import gstools as gs
from gsvc.contract import contract
from gsvc import symrun
from gsvc.symrun import SymReal, wrap, is_sym, symbolic_active, uf
from gstools.variogram import variogram as V
from gstools.tools import geometric as geo

P = "C09"
CAP = {}           # last captured kernel / preprocessing calls
GHOST = {"idx": None, "calls": []}
REAL = {}
FN = ["variogram/variogram.py:vario_estimate"]
FNA = ["variogram/variogram.py:vario_estimate_axis"]
B_SHAPES = "points <= 4, fields <= 2, dim 1-3, enumerated missing-value / mask / index patterns"


# ---------------------------------------------------------------------------------------
# local shims (logged in symrun.SHIM_LOG)
# ---------------------------------------------------------------------------------------
def _has_obj(x):
    return isinstance(x, np.ndarray) and x.dtype == object or is_sym(x)


def _nonfinite(v):
    return isinstance(v, (float, np.floating)) and not np.isfinite(v)


class _MaShim:
    """np.ma inside gstools modules: masked arrays over object data when symbolic values occur"""

    def __getattr__(self, name):
        return getattr(np.ma, name)

    def array(self, data, *a, **kw):
        if symbolic_active() and (_has_obj(data) or _has_obj(getattr(data, "data", None)) or
                                  (isinstance(data, (list, tuple)) and any(
                                      _has_obj(getattr(d, "data", d)) for d in data))):
            kw = dict(kw)
            if symrun._floaty(kw.get("dtype")):
                kw["dtype"] = object
            return np.ma.array(data, *a, **kw)
        return np.ma.array(data, *a, **kw)


class _LinalgShim:
    def __getattr__(self, name):
        return getattr(np.linalg, name)

    def norm(self, x, ord=None, axis=None, keepdims=False):
        if symbolic_active() and _has_obj(x) and ord is None:
            a = np.asarray(x, dtype=object)
            sq = a * a
            s = np.sum(sq, axis=axis, keepdims=keepdims)
            if np.ndim(s) == 0:
                return wrap(s if not isinstance(s, np.ndarray) else s.item()).sqrt()
            return np.frompyfunc(lambda v: wrap(v).sqrt(), 1, 1)(s)
        return np.linalg.norm(x, ord=ord, axis=axis, keepdims=keepdims)


class _GhostRandomState:
    """np.random.RandomState(seed) inside variogram.py: `choice` returns the index set prescribed by
    the contract and records how it was called (T5: the real generator is a deterministic function
    of the seed; which indices it draws is irrelevant for the claim)"""

    def __init__(self, seed=None):
        self.seed = seed

    def choice(self, a, size=None, replace=True, p=None):
        GHOST["calls"].append({"seed": self.seed, "population": np.array(a), "size": size,
                               "replace": replace, "p": p})
        return np.array(GHOST["idx"], dtype=int)


class _RandomShim:
    def __getattr__(self, name):
        return getattr(np.random, name)

    def RandomState(self, seed=None):
        if GHOST["idx"] is not None:
            return _GhostRandomState(seed)
        return np.random.RandomState(seed)


def _sh_isclose(a, b, rtol=1.0e-5, atol=1.0e-8, equal_nan=False):
    if symbolic_active() and (_has_obj(a) or _has_obj(b)):
        def one(u, v):
            if _nonfinite(u) or _nonfinite(v):
                return bool(np.isclose(float(u) if not isinstance(u, SymReal) else 0.0,
                                       float(v) if not isinstance(v, SymReal) else 0.0,
                                       rtol=rtol, atol=atol)) if not (isinstance(u, SymReal) or isinstance(v, SymReal)) else False
            u, v = wrap(u), wrap(v)
            if symrun._num(u.t - v.t) == 0:
                return True
            return bool(abs(u - v) <= atol + rtol * abs(v))
        aa = np.asarray(a, dtype=object)
        bb = np.asarray(b, dtype=object)
        if aa.ndim == 0 and bb.ndim == 0:
            return one(aa.item(), bb.item())
        return np.frompyfunc(one, 2, 1)(aa, bb).astype(bool)
    return np.isclose(a, b, rtol=rtol, atol=atol, equal_nan=equal_nan)


def _sh_isnan(x, *a, **kw):
    if symbolic_active() and _has_obj(x):
        arr = np.asarray(x, dtype=object)
        f = lambda v: False if isinstance(v, SymReal) else bool(np.isnan(v))   # noqa: E731
        if arr.ndim == 0:
            return f(arr.item())
        return np.frompyfunc(f, 1, 1)(arr).astype(bool)
    return np.isnan(x, *a, **kw)


def _mk_arraylike(inner):
    """np.array / np.asarray(dtype=double) of object data that holds plain NaN floats next to symbolic
    reals: keep the NaN leaves (symrun.symarr would reject them)"""
    def f(obj, *a, **kw):
        dtype = kw.get("dtype", a[0] if a else None)
        if symbolic_active() and symrun._floaty(dtype) and _has_obj(obj):
            arr = np.array(obj, dtype=object, ndmin=kw.get("ndmin", 0))
            if any(_nonfinite(v) for v in arr.ravel().tolist()):
                out = np.empty(arr.shape, dtype=object)
                flat = out.reshape(-1)
                for i, v in enumerate(arr.reshape(-1).tolist()):
                    flat[i] = v if _nonfinite(v) else wrap(v)
                return out
        return inner(obj, *a, **kw)
    return f


def _capture(name, real, shape_fn):
    def stub(*args, **kw):
        CAP[name] = {"args": args, "kw": kw}
        CAP.setdefault("order", []).append(name)
        if symbolic_active() or CAP.get("force_stub"):
            return shape_fn(*args, **kw)
        return real(*args, **kw)
    stub.__name__ = name
    return stub


def _ret_unstructured(field, bin_edges, pos, *a, **kw):
    nb = len(bin_edges) - 1
    return np.array([("est", i) for i in range(nb)], dtype=object)[:, 0] if False else \
        (np.arange(nb) + 0.5, np.arange(nb) + 10)


def _ret_directional(field, bin_edges, pos, direction, *a, **kw):
    nb = len(bin_edges) - 1
    nd = len(direction)
    return (np.arange(nd * nb).reshape(nd, nb) + 0.5, np.arange(nd * nb).reshape(nd, nb) + 10)


def _ret_structured(field, *a, **kw):
    return np.arange(len(field)) + 0.25


def _rtnm_stub(*args, **kw):
    CAP["rtnm"] = {"args": args, "kw": kw}
    CAP.setdefault("order", []).append("rtnm")
    if symbolic_active() or CAP.get("force_stub"):
        field = args[1]
        out = CAP.get("rtnm_return", field)
        return (out, "fitted-normalizer") if kw.get("fit_normalizer") else out
    return REAL["rtnm"](*args, **kw)


_INSTALLED = False


def install():
    global _INSTALLED
    if _INSTALLED:
        return
    _INSTALLED = True
    for nm, shp in (("unstructured_c", _ret_unstructured), ("directional_c", _ret_directional),
                    ("structured_c", _ret_structured), ("ma_structured_c", _ret_structured)):
        REAL[nm] = getattr(V, nm)
        setattr(V, nm, _capture(nm, REAL[nm], shp))
    REAL["rtnm"] = V.remove_trend_norm_mean
    V.remove_trend_norm_mean = _rtnm_stub
    symrun._NP_OVERRIDES["ma"] = _MaShim()
    symrun._NP_OVERRIDES["linalg"] = _LinalgShim()
    symrun._NP_OVERRIDES["random"] = _RandomShim()
    symrun._NP_OVERRIDES["isclose"] = _sh_isclose
    symrun._NP_OVERRIDES["isnan"] = _sh_isnan
    for k in ("array", "asarray"):
        symrun._NP_OVERRIDES[k] = _mk_arraylike(symrun._NP_OVERRIDES[k])
    symrun.SHIM_LOG.extend([
        "gstools.variogram.variogram.{unstructured_c,directional_c,structured_c,ma_structured_c} -> capture "
        "stubs recording the arguments (symbolic runs return placeholder results; native runs call the "
        "compiled kernel)",
        "gstools.variogram.variogram.remove_trend_norm_mean -> capture stub (identity in symbolic runs; its "
        "correctness is C18)",
        "np.ma.array(dtype=double) on symbolic data -> masked array over object data (contracts/c09.py)",
        "np.linalg.norm on symbolic data -> sqrt(sum of squares) (contracts/c09.py)",
        "np.random.RandomState -> ghost whose choice() returns the index set prescribed by the contract and "
        "records seed / population / size / replace (T5)",
        "np.isclose / np.isnan / np.array on object arrays holding plain NaN floats next to symbolic reals",
    ])
    if not hasattr(SymReal, "__deepcopy__"):
        SymReal.__deepcopy__ = lambda self, memo: self
        symrun.SymBool.__deepcopy__ = lambda self, memo: self


install()


# ---------------------------------------------------------------------------------------
# helpers
# ---------------------------------------------------------------------------------------
def _q(f, *a, **k):
    with warnings.catch_warnings():
        warnings.simplefilter("ignore")
        return f(*a, **k)


def sym_matrix(ctx, name, r, c, **kw):
    a = np.empty((r, c), dtype=object)
    for i in range(r):
        for j in range(c):
            a[i, j] = ctx.real("%s%d_%d" % (name, i, j), **kw)
    return a if ctx.mode == "sym" else a.astype(float)


def sym_edges(ctx, nb=2):
    e = [ctx.real("e%d" % i, lo=0.0, hi=3.0) for i in range(nb + 1)]
    return np.array(e, dtype=object) if ctx.mode == "sym" else np.array(e, dtype=float)


def run_ve(ctx, *args, **kw):
    CAP.clear()
    GHOST["calls"] = []
    if ctx.mode == "conc":
        CAP["force_stub"] = True
    return _q(V.vario_estimate, *args, **kw)


def same_or_nan(ctx, got, want):
    """elementwise: NaN exactly where `want` is NaN, equal values elsewhere"""
    got = np.asarray(got, dtype=object)
    want = np.asarray(want, dtype=object)
    if got.shape != want.shape:
        return False
    cs = []
    for g, w in zip(got.ravel().tolist(), want.ravel().tolist()):
        wn = isinstance(w, (float, np.floating)) and w != w
        gn = isinstance(g, (float, np.floating)) and g != g
        if wn or gn:
            cs.append(bool(wn and gn))
        else:
            cs.append(ctx.eq(g, w))
    return ctx.And(*cs)


def is_passthrough(res, nb, nd=None):
    """the wrapper returns the kernel outputs untouched"""
    est, cnt = res[1], res[2]
    if nd is None or nd == 1:
        return bool(np.array_equal(np.asarray(est, dtype=float), np.arange(nb) + 0.5) and
                    np.array_equal(np.asarray(cnt, dtype=float), np.arange(nb) + 10))
    return bool(np.array_equal(np.asarray(est, dtype=float), np.arange(nd * nb).reshape(nd, nb) + 0.5) and
                np.array_equal(np.asarray(cnt, dtype=float), np.arange(nd * nb).reshape(nd, nb) + 10))


def kernel_call(name):
    c = CAP.get(name)
    if c is None:
        return None
    a = list(c["args"])
    return a, c["kw"]


# ---------------------------------------------------------------------------------------
# 1. plain call: everything is handed through unchanged
# ---------------------------------------------------------------------------------------
@contract(P, "vario_estimate/kernel-arguments-plain",
          params=[{"dim": d, "n": n, "F": f, "est": e} for d in (1, 2, 3) for n in (2, 3) for f in (1, 2)
                  for e in ("matheron", "cressie") if not (n == 3 and f == 2 and d == 3)],
          functions=FN, bounded=B_SHAPES, nsamples=2)
def plain(ctx, dim, n, F, est):
    pos = sym_matrix(ctx, "x", dim, n)
    fld = sym_matrix(ctx, "f", F, n)
    e = sym_edges(ctx)
    res = run_ve(ctx, pos if dim > 1 else pos[0], fld if F > 1 else fld[0], e, estimator=est, return_counts=True)
    k = kernel_call("unstructured_c")
    ctx.ensure("isotropic-kernel-called-once", CAP.get("order") == ["rtnm", "unstructured_c"])
    if k is None:
        ctx.done()
    a, kw = k
    ctx.ensure("field-unchanged", ctx.And(ctx.shape_eq(a[0], (F, n)), ctx.eq(a[0], fld)))
    ctx.ensure("bin_edges-unchanged", ctx.eq(a[1], e))
    ctx.ensure("positions-unchanged", ctx.And(ctx.shape_eq(a[2], (dim, n)), ctx.eq(a[2], pos)))
    ctx.ensure("estimator-and-euclidean-distance", a[3] == ("m" if est == "matheron" else "c") and a[4] == "e")
    ctx.ensure("bin-centres-are-midpoints", ctx.eq(res[0], (e[:-1] + e[1:]) / 2))
    ctx.ensure("kernel-result-returned-as-is", is_passthrough(res, 2))
    r = CAP["rtnm"]
    ctx.ensure("preprocessing-called-on-the-stacked-fields", ctx.And(
        ctx.eq(r["args"][0], pos), ctx.eq(r["args"][1], fld), r["args"][2] is None, r["args"][3] is None,
        r["args"][4] is None, r["kw"] == {"check_shape": False, "stacked": True, "fit_normalizer": False}))


@contract(P, "variogram._set_estimator/estimator-names-are-case-insensitive",
          params={"name": ["matheron", "Matheron", "MATHERON", "cressie", "Cressie", "CRESSIE", "unknown", "m", ""]},
          functions=["variogram/variogram.py:_set_estimator", "variogram/variogram.py:vario_estimate",
                     "variogram/variogram.py:vario_estimate_axis"], bounded=B_SHAPES, nsamples=1)
def estimator_names(ctx, name):
    """the kernels take 'm' (Matheron) or 'c' (Cressie) -- anything else silently selects Cressie there; the name
    given by the user is matched case-insensitively (the code lower-cases it) and unknown names are rejected"""
    want = {"matheron": "m", "cressie": "c"}.get(name.lower())
    try:
        got = V._set_estimator(name)
        raised = False
    except ValueError:
        got, raised = None, True
    ctx.ensure("translation", (raised and want is None) or (not raised and got == want))
    if want is None:
        return
    pos = sym_matrix(ctx, "x", 2, 3)
    fld = sym_matrix(ctx, "f", 1, 3)
    e = sym_edges(ctx)
    run_ve(ctx, pos, fld[0], e, estimator=name)
    k = kernel_call("unstructured_c")
    ctx.ensure("kernel-receives-the-one-letter-code", k is not None and k[0][3] == want)


# ---------------------------------------------------------------------------------------
# 2. masks / masked arrays / no_data / NaN  ==  removed points resp. NaN entries
# ---------------------------------------------------------------------------------------
def _patterns(n, F):
    """(point mask or None, per-field mask F x n, how missing values are encoded)"""
    pats = []
    base = [
        (None, [[0] * n] * F),
        ([1] + [0] * (n - 1), [[0] * n] * F),
        (None, [[0, 1] + [0] * (n - 2)] + [[0] * n] * (F - 1)),
        (None, [[0, 1] + [0] * (n - 2)] * F),
        ([0] * (n - 1) + [1], [[1] + [0] * (n - 1)] + [[0] * n] * (F - 1)),
        ([0] * (n - 1) + [1], [[0] * (n - 1) + [1]] * F),
    ]
    for pm, fm in base:
        for how in ("masked_array", "list_of_masked_arrays", "nan", "no_data", "no_data=0"):
            if how != "masked_array" and not any(any(r) for r in fm):
                continue
            pats.append({"pmask": pm, "fmask": [list(r) for r in fm], "how": how})
    return pats


@contract(P, "vario_estimate/missing-values-are-removed-points-or-NaN",
          params=[dict(p, n=n, F=F) for (n, F) in ((3, 1), (3, 2), (4, 2)) for p in _patterns(n, F)],
          functions=FN, bounded=B_SHAPES, nsamples=2)
def missing(ctx, n, F, pmask, fmask, how):
    dim = 2
    pos = sym_matrix(ctx, "x", dim, n)
    vals = sym_matrix(ctx, "f", F, n)
    e = sym_edges(ctx)
    NO = 0.0 if how == "no_data=0" else -999.0          # 0 is a legal marker (falsy in Python)
    fm = np.array(fmask, dtype=bool)
    for v in np.asarray(vals, dtype=object).ravel().tolist():
        # genuine values are not close to the no_data marker
        ctx.require(ctx.gt(v, 0.001) if how == "no_data=0" else ctx.gt(v, -100))
    kw = {}
    if how == "masked_array":
        fld = np.ma.array(np.array(vals, dtype=object if ctx.mode == "sym" else float), mask=fm)
    elif how == "list_of_masked_arrays":    # several fields handed over as a python list of masked arrays
        full = np.array(vals, dtype=object if ctx.mode == "sym" else float)
        fld = [np.ma.array(full[i], mask=fm[i]) for i in range(F)]
    else:
        fld = np.array(vals, dtype=object if ctx.mode == "sym" else float)
        fld[fm] = np.nan if how == "nan" else NO
        if how in ("no_data", "no_data=0"):
            kw["no_data"] = NO
            # documented matching is np.isclose: a value within the default tolerance is missing too
            first = tuple(np.argwhere(fm)[0])
            fld[first] = NO + (0.005 if how == "no_data" else 5e-9)
    if pmask is not None:
        kw["mask"] = np.array(pmask, dtype=bool)
    res = run_ve(ctx, pos, fld if (F > 1 or how == "list_of_masked_arrays") else fld[0], e, return_counts=True, **kw)
    # documented semantics: a point is removed iff it is masked by `mask` or masked in ALL fields
    # (masked arrays only; NaN / no_data entries are missing VALUES, the point stays);
    removed = np.zeros(n, dtype=bool)
    if pmask is not None:
        removed |= np.array(pmask, dtype=bool)
    if how in ("masked_array", "list_of_masked_arrays"):
        removed |= fm.all(axis=0)
    keep = ~removed
    want_pos = np.asarray(pos, dtype=object)[:, keep]
    want_f = np.array(vals, dtype=object)
    want_f[fm] = np.nan
    want_f = want_f[:, keep]
    k = kernel_call("unstructured_c")
    if keep.sum() == 0 or k is None:
        ctx.ensure("all-masked-gives-zero-estimate", k is None and bool(np.all(np.asarray(res[1]) == 0)))
        ctx.done()
    a, _ = k
    ctx.ensure("positions=given-without-removed-points", ctx.And(ctx.shape_eq(a[2], want_pos.shape),
                                                                 ctx.eq(a[2], want_pos)))
    ctx.ensure("field=given-with-NaN-at-missing-values", same_or_nan(ctx, a[0], want_f))
    ctx.ensure("bin_edges-unchanged", ctx.eq(a[1], e))


# ---------------------------------------------------------------------------------------
# 3. directions
# ---------------------------------------------------------------------------------------
@contract(P, "vario_estimate/direction-vectors-normalised-and-separation-flag",
          params=[{"dim": d, "nd": k, "bw": b, "tolrange": "narrow"} for d in (2, 3) for k in (1, 2) for b in (False, True)] +
                 [{"dim": d, "nd": 1, "bw": b, "tolrange": "wide"} for d in (2, 3) for b in (False, True)],
          functions=FN + ["variogram/variogram.py:_separate_dirs_test"], bounded=B_SHAPES, nsamples=2, timeout=60)
def directions(ctx, dim, nd, bw, tolrange):
    m = ctx.m
    n = 2
    pos = sym_matrix(ctx, "x", dim, n)
    fld = sym_matrix(ctx, "f", 1, n)
    e = sym_edges(ctx)
    d = sym_matrix(ctx, "d", nd, dim, lo=-2.0, hi=2.0)
    if tolrange == "narrow":
        tol = ctx.real("tol", lo=0.05, hi=0.7)
        ctx.require(ctx.And(ctx.gt(tol, 0), ctx.lt(tol, m.pi / 4)))
    else:       # up to and including the closed end pi/2 of the documented range: still a directional estimate
        # (the kernel's angle test is strict: pairs exactly perpendicular to the direction are excluded)
        tol = ctx.real("tol", lo=0.8, hi=1.5707963267948966)
        ctx.require(ctx.And(ctx.ge(tol, m.pi / 4), ctx.le(tol, m.pi / 2)))
    norms2 = [sum(d[i, j] * d[i, j] for j in range(dim)) for i in range(nd)]
    for s in norms2:
        ctx.require(ctx.gt(s, 0.01))           # not a zero-length direction
    kw = {}
    if bw:
        band = ctx.real("bw", lo=0.1, hi=3.0)
        ctx.require(ctx.gt(band, 0))
        kw["bandwidth"] = band
    res = run_ve(ctx, pos, fld[0], e, direction=d if nd > 1 else d[0], angles_tol=tol, return_counts=True, **kw)
    k = kernel_call("directional_c")
    ctx.ensure("directional-kernel-called", k is not None and "unstructured_c" not in CAP)
    if k is None:
        ctx.done()
    a, _ = k
    u = np.asarray(a[3], dtype=object)
    ctx.ensure("shape", ctx.shape_eq(u, (nd, dim)))
    for i in range(nd):
        nrm = m.sqrt(norms2[i])
        ctx.ensure("direction[%d]=given/|given|" % i, ctx.eq(u[i] * nrm, d[i]))
        ctx.ensure("direction[%d]-is-a-unit-vector" % i, ctx.eq(sum(u[i, j] * u[i, j] for j in range(dim)), 1))
    ctx.ensure("angles_tol-passed", ctx.eq(a[4], tol))
    ctx.ensure("bandwidth-passed(-1=off)", ctx.eq(a[5], kw["bandwidth"] if bw else -1.0))
    ctx.ensure("field-positions-edges-unchanged", ctx.And(ctx.eq(a[0], fld), ctx.eq(a[1], e), ctx.eq(a[2], pos)))
    # separate_dirs: every pair of (unit) directions at least 2*tol apart
    sep = a[6]
    if nd == 1:
        ctx.ensure("separate_dirs(single direction)=True", sep is True)
    else:
        dot = sum(u[0, j] * u[1, j] for j in range(dim))
        c = m.min(abs(dot) if ctx.mode == "conc" else abs(wrap(dot)), 1)
        want = ctx.ge(m.arccos(c), 2 * tol)
        ctx.ensure("separate_dirs=(acos(min(|u0.u1|,1))>=2tol)",
                   want if sep else ctx.Not(want))
    ctx.ensure("kernel-result-returned-as-is", is_passthrough(res, 2, nd))


@contract(P, "vario_estimate/direction-ignored-in-1D-and-rejected-for-latlon", functions=FN, bounded=B_SHAPES,
          nsamples=2)
def direction_edge(ctx):
    pos = sym_matrix(ctx, "x", 1, 3)
    fld = sym_matrix(ctx, "f", 1, 3)
    e = sym_edges(ctx)
    run_ve(ctx, pos[0], fld[0], e, direction=[1.0], return_counts=True)
    ctx.ensure("1-D:isotropic-kernel", "unstructured_c" in CAP and "directional_c" not in CAP)
    p2 = sym_matrix(ctx, "y", 2, 3)
    err = None
    try:
        run_ve(ctx, p2, fld[0], e, direction=[1.0, 0.0], latlon=True)
    except ValueError as ex:
        err = str(ex)
    ctx.ensure("latlon+direction:ValueError", err is not None and "lat-lon" in err)
    err = None
    try:
        run_ve(ctx, p2, fld[0], e, direction=[0.0, 0.0])
    except ValueError as ex:
        err = str(ex)
    ctx.ensure("zero-direction:ValueError", err is not None)


@contract(P, "geometric.ang2dir/documented-spherical-convention", params={"dim": [2, 3], "k": [1, 2]},
          functions=["tools/geometric.py:ang2dir"], nsamples=3)
def ang2dir_contract(ctx, dim, k):
    m = ctx.m
    ang = sym_matrix(ctx, "a", k, dim - 1, angle=True)
    out = geo.ang2dir(ang if k > 1 else ang[0], dtype=np.double, dim=dim)
    ctx.ensure("shape", ctx.shape_eq(out, (k, dim)))
    for i in range(k):
        if dim == 2:
            # azimuth phi, counter-clockwise from +x
            ctx.ensure("2D[%d]=(cos phi, sin phi)" % i,
                       ctx.And(ctx.eq(out[i, 0], m.cos(ang[i, 0])), ctx.eq(out[i, 1], m.sin(ang[i, 0]))))
        else:
            # ISO 80000-2: azimuth phi (ccw from +x in the xy plane), inclination theta (from +z)
            ph, th = ang[i, 0], ang[i, 1]
            ctx.ensure("3D[%d]=(sin th cos ph, sin th sin ph, cos th)" % i, ctx.And(
                ctx.eq(out[i, 0], m.sin(th) * m.cos(ph)), ctx.eq(out[i, 1], m.sin(th) * m.sin(ph)),
                ctx.eq(out[i, 2], m.cos(th))))
        ctx.ensure("unit-vector[%d]" % i, ctx.eq(sum(out[i, j] * out[i, j] for j in range(dim)), 1))


@contract(P, "vario_estimate/angles-converted-by-ang2dir", params={"dim": [2, 3]}, functions=FN +
          ["tools/geometric.py:ang2dir"], bounded=B_SHAPES, nsamples=2, timeout=60)
def angles(ctx, dim):
    m = ctx.m
    pos = sym_matrix(ctx, "x", dim, 2)
    fld = sym_matrix(ctx, "f", 1, 2)
    e = sym_edges(ctx)
    ang = [ctx.real("a%d" % i, angle=True) for i in range(dim - 1)]
    run_ve(ctx, pos, fld[0], e, angles=ang, return_counts=True)
    k = kernel_call("directional_c")
    ctx.ensure("directional-kernel-called", k is not None)
    if k is None:
        ctx.done()
    u = np.asarray(k[0][3], dtype=object)
    ctx.ensure("one-direction", ctx.shape_eq(u, (1, dim)))
    if dim == 2:
        want = [m.cos(ang[0]), m.sin(ang[0])]
    else:
        want = [m.sin(ang[1]) * m.cos(ang[0]), m.sin(ang[1]) * m.sin(ang[0]), m.cos(ang[1])]
    ctx.ensure("direction=unit-vector-of-the-angles", ctx.eq(u[0], want))
    ctx.ensure("default-tolerance-pi/8-and-band-off", ctx.And(ctx.eq(k[0][4], float(np.pi) / 8), ctx.eq(k[0][5], -1.0)))


# ---------------------------------------------------------------------------------------
# 4. sub-sampling
# ---------------------------------------------------------------------------------------
@contract(P, "vario_estimate/sampling-selects-the-same-indices-of-positions-and-fields",
          params=[{"n": 4, "F": f, "idx": idx, "masked": mk} for f in (1, 2)
                  for idx in ((2, 0), (3, 1, 0), (1,)) for mk in (False, True)],
          functions=FN, bounded=B_SHAPES, nsamples=2)
def sampling(ctx, n, F, idx, masked):
    dim = 2
    pos = sym_matrix(ctx, "x", dim, n)
    fld = sym_matrix(ctx, "f", F, n)
    e = sym_edges(ctx)
    seed = ctx.integer("seed", lo=0, hi=1000)
    kw = {}
    keep = np.ones(n, dtype=bool)
    if masked:
        keep[1] = False                      # sampling happens AFTER masked points are removed
        kw["mask"] = ~keep
    pool = int(keep.sum())
    size = len(idx)
    idx = tuple(i for i in idx if i < pool)
    size = len(idx)
    GHOST["idx"] = idx
    try:
        run_ve(ctx, pos, fld if F > 1 else fld[0], e, sampling_size=size, sampling_seed=seed, return_counts=True, **kw)
        calls = list(GHOST["calls"])
    finally:
        GHOST["idx"] = None
    k = kernel_call("unstructured_c")
    ctx.ensure("kernel-called", k is not None)
    ctx.ensure("one-draw:choice(arange(points), size, replace=False)-of-RandomState(seed)",
               len(calls) == 1 and bool(np.array_equal(calls[0]["population"], np.arange(pool)))
               and calls[0]["size"] == size and calls[0]["replace"] is False and calls[0]["p"] is None
               and ctx.eq(calls[0]["seed"], seed))
    P0 = np.asarray(pos, dtype=object)[:, keep][:, list(idx)]
    F0 = np.asarray(fld, dtype=object)[:, keep][:, list(idx)]
    a = k[0]
    ctx.ensure("positions=subset", ctx.And(ctx.shape_eq(a[2], P0.shape), ctx.eq(a[2], P0)))
    ctx.ensure("fields=same-subset", ctx.And(ctx.shape_eq(a[0], F0.shape), ctx.eq(a[0], F0)))


@contract(P, "vario_estimate/automatic-bins-are-the-standard-bins-of-the-points-actually-used",
          params=[{"sampled": sm, "masked": mk, "latlon": ll} for sm in (False, True) for mk in (False, True)
                  for ll in (False, True)],
          functions=FN, bounded=B_SHAPES, nsamples=2)
def auto_bins(ctx, sampled, masked, latlon):
    """bin_edges=None: 'standard bins will be generated' -- from the points the estimate is made on:
    after masked points are removed and after the seeded down-sampling ('estimating on that subset'),
    in the unit of geo_scale for lat-lon; bin centres returned are the midpoints of those edges"""
    n, dim = 4, 2
    pos = sym_matrix(ctx, "x", dim, n, lo=-60.0, hi=60.0)
    fld = sym_matrix(ctx, "f", 1, n)
    gsc = ctx.real("geo", lo=0.5, hi=100.0)
    ctx.require(ctx.gt(gsc, 0))
    keep = np.ones(n, dtype=bool)
    kw = {}
    if masked:
        keep[1] = False
        kw["mask"] = ~keep
    idx = (2, 0) if sampled else tuple(range(int(keep.sum())))
    if sampled:
        kw.update(sampling_size=len(idx), sampling_seed=ctx.integer("seed", lo=0, hi=1000))
    if latlon:
        kw.update(latlon=True, geo_scale=gsc)
    edges = np.array([ctx.real("ge%d" % i, lo=0.2 + i, hi=0.9 + i) for i in range(3)], dtype=object)
    if ctx.mode != "sym":
        edges = edges.astype(float)
    seen = []

    def ghost_bins(p, d, ll, **k):
        seen.append((p, d, ll, k))
        return edges

    real = V.standard_bins
    V.standard_bins = ghost_bins
    GHOST["idx"] = idx if sampled else None
    try:
        res = run_ve(ctx, pos, fld[0], None, return_counts=True, **kw)
    finally:
        V.standard_bins = real
        GHOST["idx"] = None
    P0 = np.asarray(pos, dtype=object)[:, keep][:, list(idx)]
    ctx.ensure("standard_bins-called-once", len(seen) == 1)
    if len(seen) != 1:
        return
    p, d, ll, k = seen[0]
    ctx.ensure("standard_bins(points-actually-used)", ctx.And(ctx.shape_eq(p, P0.shape), ctx.eq(p, P0)))
    ctx.ensure("standard_bins(dim,latlon,geo_scale)", d == dim and bool(ll) == latlon and set(k) <= {"geo_scale", "mesh_type", "bin_no", "max_dist"}
               and ctx.eq(k.get("geo_scale", 1.0), gsc if latlon else 1.0))
    a = kernel_call("unstructured_c")[0]
    ctx.ensure("kernel-bins=standard-bins(/geo_scale-for-latlon)",
               ctx.eq(a[1], edges / gsc if latlon else edges))
    ctx.ensure("returned-centres=midpoints", ctx.eq(res[0], (edges[:-1] + edges[1:]) / 2.0))


@contract(P, "vario_estimate/no-sampling-when-size>=points", functions=FN, bounded=B_SHAPES, nsamples=2)
def no_sampling(ctx):
    pos = sym_matrix(ctx, "x", 2, 3)
    fld = sym_matrix(ctx, "f", 1, 3)
    e = sym_edges(ctx)
    GHOST["idx"] = (0,)
    try:
        run_ve(ctx, pos, fld[0], e, sampling_size=3, sampling_seed=5)
        calls = list(GHOST["calls"])
    finally:
        GHOST["idx"] = None
    a = kernel_call("unstructured_c")[0]
    ctx.ensure("all-points-used-no-draw", ctx.And(len(calls) == 0, ctx.eq(a[2], pos), ctx.eq(a[0], fld)))


# ---------------------------------------------------------------------------------------
# 5. lat-lon
# ---------------------------------------------------------------------------------------
@contract(P, "vario_estimate/latlon-great-circle-kernel-with-bin_edges/geo_scale", params={"n": [2, 3]},
          functions=FN, bounded=B_SHAPES, nsamples=3)
def latlon(ctx, n):
    pos = sym_matrix(ctx, "x", 2, n, lo=-80.0, hi=80.0)
    fld = sym_matrix(ctx, "f", 1, n)
    e = sym_edges(ctx)
    g = ctx.real("geo_scale", pos=True)
    ctx.require(ctx.gt(g, 0))
    e_in = np.array(e, dtype=object if ctx.mode == "sym" else float)
    res = run_ve(ctx, pos, fld[0], e_in, latlon=True, geo_scale=g, return_counts=True)
    a = kernel_call("unstructured_c")[0]
    ctx.ensure("haversine-distance-type", a[4] == "h")
    ctx.ensure("kernel-bin_edges*geo_scale=given-bin_edges", ctx.eq(np.asarray(a[1], dtype=object) * g, e))
    ctx.ensure("positions-in-degrees-unchanged", ctx.eq(a[2], pos))
    ctx.ensure("bin-centres-in-the-given-unit", ctx.eq(res[0], (e[:-1] + e[1:]) / 2))
    ctx.ensure("caller-bin_edges-untouched", ctx.eq(e_in, e))
    p3 = sym_matrix(ctx, "y", 3, n)
    err = None
    try:
        run_ve(ctx, p3, fld[0], e, latlon=True)
    except ValueError as ex:
        err = str(ex)
    ctx.ensure("latlon-needs-dim-2", err is not None and "2D" in err)


# ---------------------------------------------------------------------------------------
# 6. structured meshes
# ---------------------------------------------------------------------------------------
@contract(P, "vario_estimate/structured-mesh=point-list-in-C-order",
          params=[{"shape": s, "F": f} for s in ((2,), (3,), (2, 2), (2, 3), (2, 2, 2)) for f in (1, 2)
                  if not (len(s) == 3 and f == 2)],
          functions=FN + ["tools/geometric.py:generate_grid", "tools/geometric.py:format_struct_pos_shape"],
          bounded="grids up to 2x3 / 2x2x2, <= 2 fields, concrete distinct axis coordinates, symbolic field values",
          nsamples=2)
def structured_mesh(ctx, shape, F):
    dim = len(shape)
    axes = [np.array([10.0 * (d + 1) + 1.5 * i for i in range(shape[d])]) for d in range(dim)]
    cnt = int(np.prod(shape))
    vals = sym_matrix(ctx, "f", F, cnt)
    fld = np.asarray(vals, dtype=object if ctx.mode == "sym" else float).reshape((F,) + tuple(shape))
    e = sym_edges(ctx)
    run_ve(ctx, axes if dim > 1 else axes[0], fld if F > 1 else fld[0], e, mesh_type="structured", return_counts=True)
    k = kernel_call("unstructured_c")
    ctx.ensure("kernel-called", k is not None)
    if k is None:
        ctx.done()
    a = k[0]
    want = np.empty((dim, cnt))
    for q, multi in enumerate(itertools.product(*[range(s) for s in shape])):     # C order: last axis fastest
        for d in range(dim):
            want[d, q] = axes[d][multi[d]]
    ctx.ensure("point-q=axis-coordinates-of-C-order-index-q", ctx.And(ctx.shape_eq(a[2], (dim, cnt)),
                                                                   bool(np.array_equal(np.asarray(a[2], dtype=float), want))))
    ctx.ensure("field-column-q=field[i_0,...,i_d]", ctx.And(ctx.shape_eq(a[0], (F, cnt)), ctx.eq(a[0], vals)))


# ---------------------------------------------------------------------------------------
# 7. trend / mean / normalizer: vario_estimate only delegates
# ---------------------------------------------------------------------------------------
@contract(P, "vario_estimate/preprocessing-delegated-to-remove_trend_norm_mean", params={"fit": [False, True]},
          functions=FN + ["normalizer/tools.py:remove_trend_norm_mean"], bounded=B_SHAPES, nsamples=2)
def preprocessing(ctx, fit):
    n, F = 3, 2
    pos = sym_matrix(ctx, "x", 2, n)
    fld = sym_matrix(ctx, "f", F, n)
    out = sym_matrix(ctx, "g", F, n)
    e = sym_edges(ctx)
    mean, trend, norm = (lambda *x: 1.0), (lambda *x: 2.0), gs.normalizer.LogNormal()
    CAP.clear()
    keepret = out
    CAP_ret = {"rtnm_return": keepret}
    # run (the stub returns `out` as the cleaned field)
    CAP.clear()
    GHOST["calls"] = []
    if ctx.mode == "conc":
        CAP["force_stub"] = True
    CAP.update(CAP_ret)
    res = _q(V.vario_estimate, pos, fld, e, mean=mean, trend=trend, normalizer=norm, fit_normalizer=fit,
             return_counts=True)
    r = CAP.get("rtnm")
    ctx.ensure("called-once-before-the-kernel", CAP.get("order") == ["rtnm", "unstructured_c"])
    ctx.ensure("arguments=(pos, stacked fields, mean, normalizer, trend)", ctx.And(
        ctx.eq(r["args"][0], pos), ctx.eq(r["args"][1], fld), r["args"][2] is mean, r["args"][3] is norm,
        r["args"][4] is trend, r["kw"] == {"check_shape": False, "stacked": True, "fit_normalizer": fit}))
    a = kernel_call("unstructured_c")[0]
    ctx.ensure("kernel-gets-the-cleaned-fields", ctx.eq(a[0], out))
    ctx.ensure("fitted-normalizer-returned-iff-requested",
               (len(res) == 4 and res[3] == "fitted-normalizer") if fit else len(res) == 3)


# ---------------------------------------------------------------------------------------
# 8. vario_estimate_axis
# ---------------------------------------------------------------------------------------
def _axis_patterns():
    out = []
    for shape in ((3,), (2, 3), (3, 2), (2, 2, 2)):
        for axis in range(len(shape)):
            cnt = int(np.prod(shape))
            for how, miss in (("plain", ()), ("nan", (1,)), ("masked_array", (0,)), ("no_data", (cnt - 1,)),
                              ("masked+nan", (0, 1)), ("no_data+nan", (0, cnt - 1))):
                out.append({"shape": shape, "axis": axis, "how": how, "miss": miss})
    return out


@contract(P, "vario_estimate_axis/kernel-arguments", params=_axis_patterns(), functions=FNA,
          bounded="grids up to 3x2 / 2x2x2, enumerated missing-value patterns", nsamples=2)
def axis(ctx, shape, axis, how, miss):
    cnt = int(np.prod(shape))
    vals = sym_matrix(ctx, "f", 1, cnt)[0]
    for v in np.asarray(vals, dtype=object).tolist():
        ctx.require(ctx.gt(v, -100))
    arr = np.array(vals, dtype=object if ctx.mode == "sym" else float).reshape(shape)
    missing_ = np.zeros(cnt, dtype=bool)
    missing_[list(miss)] = True
    missing_ = missing_.reshape(shape)
    kw = {}
    fld = arr.copy()
    if how == "nan":
        fld[missing_] = np.nan
    elif how == "no_data":
        fld[missing_] = -999.0 + 0.005          # np.isclose matching
        kw["no_data"] = -999.0
    elif how == "no_data+nan":      # a sentinel AND NaN entries: both are missing values ("NaN ... like removed points")
        fld[np.unravel_index(miss[0], shape)] = np.nan
        fld[np.unravel_index(miss[1], shape)] = -999.0
        kw["no_data"] = -999.0
    elif how == "masked_array":
        fld = np.ma.array(fld, mask=missing_)
    elif how == "masked+nan":
        m1 = np.zeros(cnt, dtype=bool)
        m1[miss[0]] = True
        fld[np.unravel_index(miss[1], shape)] = np.nan
        fld = np.ma.array(fld, mask=m1.reshape(shape))
    CAP.clear()
    if ctx.mode == "conc":
        CAP["force_stub"] = True
    res = _q(V.vario_estimate_axis, fld, direction=["x", "y", "z"][axis] if axis < 3 else axis, **kw)
    want_f = np.swapaxes(arr, 0, axis).reshape(shape[axis], -1)
    want_m = np.swapaxes(missing_, 0, axis).reshape(shape[axis], -1)
    if how == "plain":
        k = kernel_call("structured_c")
        ctx.ensure("plain-kernel", k is not None and "ma_structured_c" not in CAP)
        if k is None:
            ctx.done()
        ctx.ensure("field=axis-first-then-flattened", ctx.And(ctx.shape_eq(k[0][0], want_f.shape),
                                                             ctx.eq(k[0][0], want_f)))
    else:
        k = kernel_call("ma_structured_c")
        ctx.ensure("masked-kernel", k is not None and "structured_c" not in CAP)
        if k is None:
            ctx.done()
        got_f = np.ma.getdata(k[0][0])
        got_m = np.asarray(k[0][1], dtype=bool)
        ctx.ensure("mask=given-mask-or-missing-value", ctx.And(ctx.shape_eq(got_m, want_m.shape),
                                                               bool(np.array_equal(got_m, want_m))))
        cs = [ctx.eq(g, w) for g, w, mm in zip(np.asarray(got_f, dtype=object).ravel().tolist(),
                                                want_f.ravel().tolist(), want_m.ravel().tolist()) if not mm]
        ctx.ensure("unmasked-values=axis-first-then-flattened",
                   ctx.And(ctx.shape_eq(got_f, want_f.shape), *cs))
    ctx.ensure("estimator-code", k[0][-1 if how == "plain" else 2] == "m" or k[0][1] == "m")
    ctx.ensure("lags=one-value-per-index-offset", ctx.shape_eq(res, (shape[axis],)))


# ---------------------------------------------------------------------------------------
# 9. the geometric lemma behind separate_dirs (cosine form, 2-D and 3-D)
# ---------------------------------------------------------------------------------------
@contract(P, "separate_dirs/at-most-one-direction-passes-for-a-nonzero-pair-vector",
          params={"dim": [2, 3]}, functions=["variogram/variogram.py:_separate_dirs_test",
                                             "variogram/estimator.pyx:dir_test"], timeout=60, nsamples=4)
def separated_lemma(ctx, dim):
    r"""coordinates adapted to the pair vector v (layer A: rotating points and directions together
    changes nothing): v = |v| e_1.  Unit directions u_i = (a_i, w_i) with a_i = u_i.v/|v|.
    T = cos(tol).  in-angle_i  <=>  |a_i| > T   (acos decreasing on [0,1]; |a_i| >= 1 counts as aligned);
    separated  <=>  |u_1.u_2| <= cos(2 tol) = 2T^2 - 1.   Claim: both in angle => not separated."""
    T = ctx.real("T", lo=0.0, hi=1.0)
    a1, a2 = ctx.real("a1", lo=-1, hi=1), ctx.real("a2", lo=-1, hi=1)
    w1 = [ctx.real("p1_%d" % i, lo=-1, hi=1) for i in range(dim - 1)]
    w2 = [ctx.real("p2_%d" % i, lo=-1, hi=1) for i in range(dim - 1)]
    R0 = ctx.require(ctx.ge(T, 0))
    R1 = ctx.require(ctx.eq(a1 * a1 + sum(x * x for x in w1), 1))
    R2 = ctx.require(ctx.eq(a2 * a2 + sum(x * x for x in w2), 1))
    R3 = ctx.require(ctx.And(ctx.gt(abs(a1), T), ctx.gt(abs(a2), T)))
    ww = sum(x * y for x, y in zip(w1, w2))
    dot = a1 * a2 + ww
    s1, s2 = 1 - a1 * a1, 1 - a2 * a2
    L0 = ctx.lemma("cauchy-schwarz-in-the-plane-orthogonal-to-v", ctx.le(ww * ww, s1 * s2), using=[R1, R2])
    L1 = ctx.lemma("0<=1-a_i^2<1-T^2", ctx.And(ctx.ge(s1, 0), ctx.ge(s2, 0), ctx.lt(s1, 1 - T * T),
                                                 ctx.lt(s2, 1 - T * T)), using=[R0, R1, R2, R3])
    L2 = ctx.lemma("(1-a1^2)(1-a2^2)<(1-T^2)^2", ctx.lt(s1 * s2, (1 - T * T) * (1 - T * T)), using=[L1],
                   generalize=[s1, s2])
    L3 = ctx.lemma("|w1.w2|<1-T^2", ctx.lt(abs(ww), 1 - T * T), using=[L0, L2, L1], generalize=[ww, s1 * s2])
    L4 = ctx.lemma("|a1.a2|>T^2", ctx.gt(abs(a1 * a2), T * T), using=[R0, R3])
    ctx.ensure("|u1.u2|>cos(2tol):directions-are-not-separated", ctx.gt(abs(dot), 2 * T * T - 1),
               using=[L3, L4], generalize=[ww, a1 * a2])


# --- normalizer given as a class: the preprocessing of one call does not depend on earlier calls (contract text in c18.py)
from contracts.c18 import normalizer_class_history, NORM_HIST, NORM_HIST_FN, NORM_HIST_B     # noqa: E402

contract(P, "vario_estimate[normalizer-class]/preprocessing-independent-of-earlier-fitted-calls",
         params=[p for p in NORM_HIST if p["entry"] != "Krige"], functions=NORM_HIST_FN, bounded=NORM_HIST_B)(normalizer_class_history)
