"""C12 -- anisotropy and rotation act as a linear change of coordinates.

Top-level postconditions are written from the property statement and the documented
conventions (DESIGN.md 6-C12), helper shapes from the code."""
import numpy as np

from gsvc.contract import contract
from gstools.tools import geometric as geo

P = "C12"


def _eye(n):
    return np.eye(n)


def _det(M):
    M = np.asarray(M, dtype=object)
    n = M.shape[0]
    if n == 1:
        return M[0, 0]
    if n == 2:
        return M[0, 0] * M[1, 1] - M[0, 1] * M[1, 0]
    tot = 0
    for j in range(n):
        minor = np.delete(np.delete(M, 0, axis=0), j, axis=1)
        tot = tot + (-1) ** j * M[0, j] * _det(minor)
    return tot


def _planes(dim):
    # documented plane order: x-y, x-z, y-z, x-v, y-v, z-v
    return [(0, 1), (0, 2), (1, 2), (0, 3), (1, 3), (2, 3)][: dim * (dim - 1) // 2]


def _elem(ctx, dim, plane, a):
    """standard counter-clockwise rotation by `a` in the oriented plane (i, j), i < j"""
    G = np.array(np.eye(dim), dtype=object)
    i, j = plane
    c, s = ctx.m.cos(a), ctx.m.sin(a)
    G[i, i] = c
    G[j, j] = c
    G[i, j] = -s
    G[j, i] = s
    return G


@contract(P, "geometric.givens_rotation/special-orthogonal",
          params=[{"dim": d, "plane": pl} for d in (2, 3, 4) for pl in _planes(d)],
          functions=["tools/geometric.py:givens_rotation"])
def givens(ctx, dim, plane):
    a = ctx.real("a", angle=True)
    G = geo.givens_rotation(dim, plane, a)
    ctx.ensure("shape", ctx.shape_eq(G, (dim, dim)))
    ctx.ensure("orthogonal", ctx.eq(G.T @ G, _eye(dim)))
    ctx.ensure("det-one", ctx.eq(_det(G), 1))
    ctx.ensure("ccw-in-plane", ctx.eq(G, _elem(ctx, dim, plane, a)))


@contract(P, "geometric.matrix_rotate/special-orthogonal", params={"dim": [1, 2, 3, 4]},
          functions=["tools/geometric.py:matrix_rotate", "tools/geometric.py:set_angles",
                     "tools/geometric.py:rotation_planes", "tools/geometric.py:no_of_angles"],
          timeout=120)
def rotate_so(ctx, dim):
    n = dim * (dim - 1) // 2
    ang = ctx.reals("a", n, angle=True)
    R = geo.matrix_rotate(dim, ang)
    ctx.ensure("shape", ctx.shape_eq(R, (dim, dim)))
    ctx.ensure("orthogonal", ctx.eq(R.T @ R, _eye(dim)))
    ctx.ensure("orthogonal-rows", ctx.eq(R @ R.T, _eye(dim)))
    ctx.ensure("det-one", ctx.eq(_det(R), 1))


@contract(P, "geometric.matrix_derotate/is-transpose-of-rotate", params={"dim": [1, 2, 3, 4]},
          functions=["tools/geometric.py:matrix_derotate", "tools/geometric.py:matrix_rotate"],
          timeout=120)
def derotate_T(ctx, dim):
    n = dim * (dim - 1) // 2
    ang = ctx.reals("a", n, angle=True)
    R = geo.matrix_rotate(dim, ang)
    D = geo.matrix_derotate(dim, ang)
    ctx.ensure("derotate=rotate^T", ctx.eq(D, R.T))


@contract(P, "geometric.matrix_rotate/documented-convention", params={"dim": [2, 3, 4]},
          functions=["tools/geometric.py:matrix_rotate"], timeout=120)
def rotate_convention(ctx, dim):
    """2-D: counter-clockwise about z.  3-D: R = Rx(roll) Ry(pitch) Rz(yaw) with the standard
    right-handed elementary rotations; 4-D: then the planes x-v, y-v, z-v, alternating signs."""
    n = dim * (dim - 1) // 2
    ang = ctx.reals("a", n, angle=True)
    R = geo.matrix_rotate(dim, ang)
    if dim == 2:
        c, s = ctx.m.cos(ang[0]), ctx.m.sin(ang[0])
        ctx.ensure("ccw-about-z", ctx.eq(R, np.array([[c, -s], [s, c]], dtype=object)))
        return
    c0, s0 = ctx.m.cos(ang[0]), ctx.m.sin(ang[0])
    c1, s1 = ctx.m.cos(ang[1]), ctx.m.sin(ang[1])
    c2, s2 = ctx.m.cos(ang[2]), ctx.m.sin(ang[2])
    Rz = np.array(np.eye(dim), dtype=object)
    Rz[0, 0], Rz[0, 1], Rz[1, 0], Rz[1, 1] = c0, -s0, s0, c0
    Ry = np.array(np.eye(dim), dtype=object)
    Ry[0, 0], Ry[0, 2], Ry[2, 0], Ry[2, 2] = c1, s1, -s1, c1
    Rx = np.array(np.eye(dim), dtype=object)
    Rx[1, 1], Rx[1, 2], Rx[2, 1], Rx[2, 2] = c2, -s2, s2, c2
    spec = Rx @ Ry @ Rz
    if dim == 4:
        for k, pl in enumerate(_planes(4)[3:], start=3):
            spec = _elem(ctx, 4, pl, (-1) ** k * ang[k]) @ spec
    ctx.ensure("yaw-pitch-roll", ctx.eq(R, spec))


@contract(P, "geometric.rotated_main_axes/columns-of-R", params={"dim": [1, 2, 3, 4]},
          functions=["tools/geometric.py:rotated_main_axes"], timeout=60)
def main_axes(ctx, dim):
    n = dim * (dim - 1) // 2
    ang = ctx.reals("a", n, angle=True)
    R = geo.matrix_rotate(dim, ang)
    A = geo.rotated_main_axes(dim, ang)
    for i in range(dim):
        e = np.zeros(dim)
        e[i] = 1.0
        ctx.ensure("axis%d=R.e%d" % (i, i), ctx.eq(A[i], R @ e))


@contract(P, "geometric.matrix_isometrize/inverse-of-anisometrize", params={"dim": [1, 2, 3, 4]},
          functions=["tools/geometric.py:matrix_isometrize", "tools/geometric.py:matrix_anisometrize",
                     "tools/geometric.py:matrix_isotropify", "tools/geometric.py:matrix_anisotropify",
                     "tools/geometric.py:set_anis"], timeout=180)
def iso_inverse(ctx, dim):
    n = dim * (dim - 1) // 2
    ang = ctx.reals("a", n, angle=True)
    anis = ctx.reals("r", dim - 1, pos=True)
    for r in anis:
        ctx.require(ctx.gt(r, 0))
    I = geo.matrix_isometrize(dim, ang, anis)
    A = geo.matrix_anisometrize(dim, ang, anis)
    ctx.ensure("iso.aniso=I", ctx.eq(I @ A, _eye(dim)))
    ctx.ensure("aniso.iso=I", ctx.eq(A @ I, _eye(dim)))
    # documented meaning: isometrize = S^-1 R^T with S = diag(1, anis), anisometrize = R S
    R = geo.matrix_rotate(dim, ang)
    S = np.array(np.eye(dim), dtype=object)
    Sinv = np.array(np.eye(dim), dtype=object)
    for i, r in enumerate(anis):
        S[i + 1, i + 1] = r
        Sinv[i + 1, i + 1] = 1 / r
    ctx.ensure("aniso=R.S", ctx.eq(A, R @ S))
    ctx.ensure("iso=S^-1.R^T", ctx.eq(I, Sinv @ R.T))


@contract(P, "geometric.set_anis/pads-ones-in-front",
          params=[{"dim": d, "given": g} for d in (1, 2, 3, 4) for g in range(0, d + 1)],
          functions=["tools/geometric.py:set_anis"])
def set_anis_pad(ctx, dim, given):
    vals = ctx.reals("r", given, pos=True)
    out = geo.set_anis(dim, vals)
    ctx.ensure("length", ctx.shape_eq(out, (dim - 1,)))
    keep = vals[: dim - 1]
    expect = [1.0] * (dim - 1 - len(keep)) + list(keep)
    ctx.ensure("ones-in-front", ctx.eq(out, np.array(expect, dtype=object)) if expect else ctx.true())


@contract(P, "geometric.set_angles/pads-zeros-behind",
          params=[{"dim": d, "given": g} for d in (1, 2, 3, 4) for g in range(0, d * (d - 1) // 2 + 2)],
          functions=["tools/geometric.py:set_angles"])
def set_angles_pad(ctx, dim, given):
    n = dim * (dim - 1) // 2
    vals = ctx.reals("a", given, angle=True)
    out = geo.set_angles(dim, vals)
    ctx.ensure("length", ctx.shape_eq(out, (n,)))
    keep = vals[:n]
    expect = list(keep) + [0.0] * (n - len(keep))
    ctx.ensure("zeros-behind", ctx.eq(out, np.array(expect, dtype=object)) if expect else ctx.true())


@contract(P, "CovModel.isometrize/inverse-of-anisometrize", params={"dim": [1, 2, 3], "points": [1, 2]},
          functions=["covmodel/base.py:CovModel.isometrize", "covmodel/base.py:CovModel.anisometrize"], timeout=60)
def model_iso_inverse(ctx, dim, points):
    import warnings
    import gstools as gs
    v, l = ctx.real("var", pos=True), ctx.real("len", pos=True)
    ctx.require(ctx.And(ctx.gt(v, 0), ctx.gt(l, 0)))
    anis = ctx.reals("r", dim - 1, pos=True)
    for r in anis:
        ctx.require(ctx.gt(r, 0))
    ang = ctx.reals("a", dim * (dim - 1) // 2, angle=True)
    with warnings.catch_warnings():
        warnings.simplefilter("ignore")
        mod = gs.Gaussian(dim=dim, var=v, len_scale=l, anis=anis, angles=ang)
    pos = np.array([[ctx.real("x%d_%d" % (d, i)) for i in range(points)] for d in range(dim)], dtype=object)
    if ctx.mode == "conc":
        pos = pos.astype(float)
    iso = mod.isometrize(pos)
    ctx.ensure("shape", ctx.shape_eq(iso, (dim, points)))
    ctx.ensure("anisometrize(isometrize(x))=x", ctx.eq(mod.anisometrize(iso), pos))
    ctx.ensure("isometrize(anisometrize(x))=x", ctx.eq(mod.isometrize(mod.anisometrize(pos)), pos))
    # documented meaning: rotate back (R^T), then divide transversal axes by the ratios
    R = geo.matrix_rotate(dim, ang)
    y = R.T @ pos
    for d in range(1, dim):
        y[d] = y[d] / anis[d - 1]
    ctx.ensure("isometrize=S^-1.R^T.x", ctx.eq(iso, y))
    A = mod.main_axes()
    for i in range(dim):
        e = np.zeros(dim)
        e[i] = 1.0
        ctx.ensure("main_axes[%d]=R.e%d" % (i, i), ctx.eq(A[i], R @ e))
