r"""C05 -- kriging estimates and variances solve the kriging equations.

Postconditions are written from the property statement and the textbook kriging system
(Wackernagel 2003; Chiles & Delfiner 2012), see contracts/krige_common.py:

    A = [[C + diag(err), 1, F^T, E^T], [1, 0, 0, 0], [F, 0, 0, 0], [E, 0, 0, 0]],   A (w, mu) = k,
    k = (c0, 1, f(x0), e(x0)),   estimate = cond^T w,   variance = max(sill - k^T (w, mu), 0)

with C_ab = covariance(|iso(x_a) - iso(x_b)|), c0_a = covariance(|iso(x_a) - iso(x0)|) of the model
(`exact`: the covariance of the field including its nugget discontinuity, cov_nugget), err the
measurement error variances (the model nugget for cond_err="nugget"), cond = normalize(value -
trend) - mean.  The model is the generic class (uninterpreted normalised correlation), all values
are symbolic; shapes are enumerated (reported BOUNDED).
"""
import numpy as np

import gstools as gs
from gsvc.contract import contract
from gsvc import symrun
from contracts import krige_common as kc
from contracts.krige_common import lemma, quiet, arr, dot, delta, terms

P = "C05"
# symbolic branch points: none on the unchanged tree except the coincidence window of cov_nugget in the
# fork instances of the right-hand-side contract (<= 4 paths); a job that needs more paths is a checker
# error after MAXP paths instead of an exponential exploration (each window fork costs seconds)
MAXP, MAXP_FORK = 2, 6
BND = "n<=3 conditioning points, t<=2 targets, dim<=2 (3 in the thorough tier), <=2 functional and <=1 external " \
      "drifts; all values (model parameters, positions, data, errors, drift values) unbounded"

FN_MAT = ["krige/base.py:Krige._get_krige_mat", "krige/base.py:Krige._inv", "krige/base.py:Krige._get_dists",
          "krige/base.py:Krige.set_condition", "krige/base.py:Krige.cond_err", "krige/base.py:Krige._pre_ext_drift",
          "krige/base.py:Krige.set_drift_functions", "krige/tools.py:set_condition",
          "krige/tools.py:get_drift_functions", "krige/methods.py:<class>.__init__"]
FN_VEC = ["krige/base.py:Krige._get_krige_vecs", "krige/base.py:Krige._get_dists",
          "covmodel/base.py:CovModel.cov_nugget", "covmodel/base.py:CovModel.anisometrize"]
FN_CALL = ["krige/base.py:Krige.__call__", "krige/base.py:Krige._summate", "krige/base.py:_calc_field_krige",
           "krige/base.py:_calc_field_krige_and_variance", "krige/base.py:Krige._krige_cond",
           "field/base.py:Field.pre_pos", "field/base.py:Field.post_field", "field/base.py:Field.set_pos",
           "field/base.py:Field.get_store_config", "normalizer/tools.py:apply_mean_norm_trend",
           "tools/misc.py:eval_func"] + FN_VEC

ALLV = [v for v in kc.VARIANTS if v != "ordinary+mean"]
ERRS = ("nugget", "exact", "scalar", "vector")


def _dims(tier_dims=(1, 2)):
    return tier_dims


def _mat_params(thorough=False):
    out = []
    for v in ALLV:
        for dim in ((3,) if thorough else (1, 2)):
            n0 = kc.min_points(v, dim)
            if n0 > 3:
                continue
            for err in ERRS:
                ns = {max(n0, 2), 3} if (dim == 1 or err in ("nugget", "vector")) else {max(n0, 2)}
                if dim == 1 and n0 == 1 and err == "nugget":
                    ns.add(1)
                if thorough:
                    ns = {3}
                for n in sorted(ns):
                    out.append({"variant": v, "n": n, "dim": dim, "err": err})
    return out


def hint_cor0(ctx, S):
    """normalised correlation: cor(0) = 1 (instance at the generic model's correlation)"""
    c0 = symrun.uf("ucor", symrun.wrap(0)) if ctx.mode == "sym" else ctx.m.fn("ucor", 0.0)
    return ctx.hint(ctx.eq(c0, 1), kc.COR0_LABEL)


def require_distinct(ctx, S):
    """exact mode: the textbook matrix of coincident conditioning points is singular (excluded by
    the property); stated on the isometrised distances with the code's window.
    -> {(a, b): (require formula, distance term)}"""
    out = {}
    if not S.exact:
        return out
    iso = S.model.isometrize(S.cpos)
    for a in range(S.n):
        for b in range(S.n):
            if a != b:
                d = kc.dist(ctx, iso[:, a], iso[:, b])
                out[(a, b)] = (ctx.require(ctx.gt(d, 1e-8), "non-singular system: distinct conditioning points"), d)
    return out


# ---------------------------------------------------------------------------------------
# (1) the matrix handed to the inverse
# ---------------------------------------------------------------------------------------
def _matrix_obligations(ctx, S, prefix="", distinct=None):
    A, n, m = S.A, S.n, S.m
    distinct = distinct or {}
    ctx.ensure(prefix + "inverse-called-exactly-once", len(S.inv_calls) == 1)
    ctx.ensure(prefix + "shape=system-size", ctx.shape_eq(A, (m, m)))
    if np.shape(A) != (m, m):
        return
    want = kc.spec_matrix(ctx, S)
    km = S.krige._krige_mat
    ctx.ensure(prefix + "stored-matrix=result-of-inverse", ctx.And(ctx.shape_eq(km, (m, m)), ctx.eq(km, S.K)))
    off = [(a, b) for a in range(n) for b in range(n) if a != b]
    if distinct and ctx.mode == "sym":      # exact mode: BY the pair's distinctness require, distance generalised
        for a, b in off:
            ctx.ensure(prefix + "cov-block.off-diagonal=covariance(iso-distance)", ctx.eq(A[a, b], want[a, b]),
                       using=[distinct[(a, b)][0]] + S.model_req, generalize=[distinct[(a, b)][1]])
    else:
        ctx.ensure(prefix + "cov-block.off-diagonal=covariance(iso-distance)",
                   ctx.And(*[ctx.eq(A[a, b], want[a, b]) for a, b in off]))
    ctx.ensure(prefix + "cov-block.diagonal=C(0)+measurement-error",
               ctx.And(*[ctx.eq(A[a, a], want[a, a]) for a in range(n)]))
    h0 = hint_cor0(ctx, S)
    ctx.ensure(prefix + "cov-block.diagonal=var+error(sill-for-nugget-error)",
               ctx.And(*[ctx.eq(A[a, a], S.model.var + S.errs[a]) for a in range(n)]), using=[h0] + S.model_req)
    if S.unbiased:
        ctx.ensure(prefix + "unbiased-row-and-column=1",
                   ctx.And(*[ctx.And(ctx.eq(A[a, S.iu], 1), ctx.eq(A[S.iu, a], 1)) for a in range(n)]))
    if S.di:
        ctx.ensure(prefix + "functional-drift-rows-and-columns=f_i(x_a)",
                   ctx.And(*[ctx.And(ctx.eq(A[a, S.if0 + i], want[a, S.if0 + i]),
                                     ctx.eq(A[S.if0 + i, a], want[S.if0 + i, a]))
                             for a in range(n) for i in range(S.di)]))
    if S.de:
        ctx.ensure(prefix + "external-drift-rows-and-columns=e_i(x_a)",
                   ctx.And(*[ctx.And(ctx.eq(A[a, S.ie0 + e], want[a, S.ie0 + e]),
                                     ctx.eq(A[S.ie0 + e, a], want[S.ie0 + e, a]))
                             for a in range(n) for e in range(S.de)]))
    if m > n:
        ctx.ensure(prefix + "lower-right-block=0",
                   ctx.And(*[ctx.eq(A[i, j], 0) for i in range(n, m) for j in range(n, m)]))
    if distinct and ctx.mode == "sym":
        ctx.ensure(prefix + "whole-matrix=textbook-matrix", ctx.eq(A, want),
                   using=[distinct[k][0] for k in distinct] + S.model_req, generalize=[distinct[k][1] for k in distinct])
    else:
        ctx.ensure(prefix + "whole-matrix=textbook-matrix", ctx.eq(A, want))


@contract(P, "Krige._get_krige_mat/textbook-kriging-matrix", params=_mat_params(), functions=FN_MAT,
          bounded=BND, nsamples=2, search=40, max_paths=MAXP)
@kc.guarded
def krige_mat(ctx, variant, n, dim, err):
    kc.reset()
    S = kc.build(ctx, variant, n, dim, err=err)
    _matrix_obligations(ctx, S, distinct=require_distinct(ctx, S))


@contract(P, "Krige._get_krige_mat/textbook-kriging-matrix(dim3)", params=_mat_params(True), functions=FN_MAT,
          bounded=BND, nsamples=2, search=40, tiers=("thorough",), max_paths=MAXP)
@kc.guarded
def krige_mat3(ctx, variant, n, dim, err):
    kc.reset()
    S = kc.build(ctx, variant, n, dim, err=err)
    _matrix_obligations(ctx, S, distinct=require_distinct(ctx, S))


def _my_inverse(mat):
    return kc.kb.P_INV["pinv"](mat)


@contract(P, "Krige._inv/routine-selection",
          params=[{"pseudo_inv": True, "kind": "pinv"}, {"pseudo_inv": True, "kind": "pinvh"},
                  {"pseudo_inv": False, "kind": "pinv"}, {"pseudo_inv": False, "kind": "pinvh"},
                  {"pseudo_inv": True, "kind": "callable"}, {"pseudo_inv": False, "kind": "callable"}],
          functions=["krige/base.py:Krige._inv", "krige/base.py:Krige.pseudo_inv_type"], bounded=BND, nsamples=2,
          search=40, max_paths=MAXP)
@kc.guarded
def inv_routine(ctx, pseudo_inv, kind):
    """pseudo_inv=True: the selected pseudo-inverse (pinv: SVD, pinvh: eigenvalues, or the user's
    callable); pseudo_inv=False: the plain inverse whatever the type; the same matrix either way"""
    kc.reset()
    called = []

    def user(mat):
        called.append(mat)
        return _my_inverse(mat)
    S = kc.build(ctx, "ordinary", 2, 1, pinv=(pseudo_inv, user if kind == "callable" else kind))
    want = "inv" if not pseudo_inv else "pinv" if kind == "callable" else kind
    ctx.ensure("documented-routine-called", len(S.inv_calls) == 1 and S.inv_calls[0]["kind"] == want
               and len(called) == (1 if (kind == "callable" and pseudo_inv) else 0))
    _matrix_obligations(ctx, S, prefix="same-matrix:")
    try:
        quiet(gs.krige.Ordinary, S.model, S.cpos, arr(ctx, S.vals), pseudo_inv_type="no-such-routine")
        ok = False
    except ValueError:
        ok = True
    ctx.ensure("unknown-routine-name-rejected", ok)


# ---------------------------------------------------------------------------------------
# (2) right-hand side, for the requested chunk only
# ---------------------------------------------------------------------------------------
class AI(list):
    """formulas anisometrize(isometrize(x))_d = x_d of one target; .args: the (simplified) terms"""
    args = ()


def aniso_iso_lemma(ctx, S, pts, tag=""):
    """C12: anisometrize(isometrize(x)) = x, per target and coordinate (proved here for the real
    matrices by ring normal form / nlsat).  Stated on the SIMPLIFIED terms, which are the argument
    terms that function applications (uninterpreted drift functions) hold.
    -> list over targets of AI(list of formulas)"""
    if S.dim == 1 or not S.di:
        return [AI() for _ in pts]
    out = []
    tp = arr(ctx, [[pt[d] for pt in pts] for d in range(S.dim)])
    back = S.model.anisometrize(S.model.isometrize(tp))
    for c, pt in enumerate(pts):
        row = AI()
        row.args = []
        for d in range(S.dim):
            b = back[d, c]
            if ctx.mode == "sym":
                import z3
                b = symrun.SymReal(z3.simplify(symrun.lift(b)))
                row.args.append(b)
            row.append(lemma(ctx, "%sC12:anisometrize(isometrize(x))=x" % tag, ctx.eq(b, pt[d]), using=S.model_req))
        out.append(row)
    return out


def drift_using(ctx, S, ai_c):
    """BY clause of a functional-drift obligation: the C12 lemma of the target; for uninterpreted
    drift functions their argument terms are generalised"""
    if ctx.mode == "conc":
        return {}
    kw = {"using": list(ai_c) + S.model_req}
    if S.fdrift is not None and ai_c.args:
        kw["generalize"] = list(ai_c.args)
    return kw


def not_close(ctx, S, pts):
    """require: no target within the code's coincidence window (|d| <= 1e-8) of a conditioning
    point.  In symbolic runs the formula is built exactly like numpy.isclose(|d|, 0) in
    CovModel.cov_nugget evaluates it, so the path does not fork."""
    iso = S.model.isometrize(S.cpos)
    out = []
    for pt in pts:
        it = S.model.isometrize(arr(ctx, [[c] for c in pt]))[:, 0]
        row = []
        for a in range(S.n):
            d = kc.dist(ctx, iso[:, a], it)
            if ctx.mode == "conc":
                row.append((ctx.require(not np.isclose(abs(d), 0), "target outside the coincidence window"), d))
            else:
                u, v = abs(symrun.wrap(d)), symrun.wrap(0.0)
                import z3
                cond = z3.simplify((abs(u - v) <= 1.0e-8 + 1.0e-5 * abs(v)).t)   # as Path.branch sees it
                row.append((ctx.require(z3.Not(cond), "target outside the coincidence window"), d))
                # Path.branch decides a condition without a solver call when its simplified form
                # is a recorded hypothesis; z3's simplifier yields one of two equivalent shapes
                # for this condition (comparison pushed into the |.| if-then-else or not) depending
                # on term sharing.  Both shapes of the SAME required fact are recorded.
                a5 = z3.simplify(u.t)
                c8 = z3.simplify(symrun.lift(1.0e-8))
                le, ge = z3.ArithRef.__le__, z3.ArithRef.__ge__      # (no reflected comparison)
                shapes = [le(z3.If(a5 >= 0, a5, -1 * a5), c8), z3.If(a5 >= 0, le(a5, c8), ge(a5, -c8))]
                for sh in shapes + [z3.simplify(x) for x in shapes]:
                    nf = z3.Not(sh)
                    ctx.path.known[nf.get_id()] = nf
        out.append(row)
    return out


def _rhs_params(thorough=False):
    out = []
    for v in ALLV:
        for dim in ((3,) if thorough else (1, 2)):
            n0 = kc.min_points(v, dim)
            if n0 > 3:
                continue
            for exact in ("no", "away", "fork"):
                if exact == "fork":
                    if v not in ("simple", "ordinary") or dim != 1:
                        continue
                    shapes = [(1, 1), (2, 1)] if v == "simple" else [(1, 1)]
                elif thorough:
                    shapes = [(3, 2)]
                else:
                    shapes = [(max(n0, 2), 2), (3, 1)] if dim == 1 else [(max(n0, 3 if exact == "no" else 2), 2)]
                for (n, t) in shapes:
                    out.append({"variant": v, "n": n, "t": t, "dim": dim, "exact": exact})
    return out


def _rhs_block_obligations(ctx, S, got, ks, cols, ai, name, nc=None):
    """got: (m, len(cols)) array from the code; ks[c]: textbook rhs of target c; nc[c][a]: the
    require 'target c is outside the coincidence window of conditioning point a' (if made)"""
    n = S.n
    ok = ctx.shape_eq(got, (S.m, len(cols)))
    ctx.ensure(name + "shape=(system-size,chunk-length)", ok)
    if np.shape(got) != (S.m, len(cols)):
        return
    goal = ctx.And(*[ctx.eq(got[a, j], ks[c][a]) for j, c in enumerate(cols) for a in range(n)])
    if nc is None or ctx.mode == "conc":
        ctx.ensure(name + "cov-rows=covariance(iso-distance-to-target)", goal)
    else:       # hypotheses: the window requires of these pairs + the model's parameter requires; the
        # distance terms themselves are generalised (the claim does not depend on their values)
        ctx.ensure(name + "cov-rows=covariance(iso-distance-to-target)", goal,
                   using=[nc[c][a][0] for c in cols for a in range(n)] + S.model_req,
                   generalize=[nc[c][a][1] for c in cols for a in range(n)])
    if S.unbiased:
        ctx.ensure(name + "unbiased-row=1", ctx.And(*[ctx.eq(got[S.iu, j], 1) for j in range(len(cols))]))
    for j, c in enumerate(cols):
        for i in range(S.di):
            ctx.ensure(name + "functional-drift-rows=f_i(original-target-coordinates)",
                       ctx.eq(got[S.if0 + i, j], ks[c][S.if0 + i]), **drift_using(ctx, S, ai[c]))
    if S.de:
        ctx.ensure(name + "external-drift-rows=e_i(target)",
                   ctx.And(*[ctx.eq(got[S.ie0 + e, j], ks[c][S.ie0 + e]) for j, c in enumerate(cols)
                             for e in range(S.de)]))


def _rhs_body(ctx, variant, n, t, dim, exact):
    kc.reset()
    S = kc.build(ctx, variant, n, dim, err="nugget" if exact == "no" else "exact")
    tp, pts, te = kc.targets(ctx, S, t)
    nc = not_close(ctx, S, pts) if exact == "away" else None
    ai = aniso_iso_lemma(ctx, S, pts)
    iso = S.model.isometrize(tp)
    ks = [kc.spec_rhs(ctx, S, pts[c], None if te is None else te[:, c]) for c in range(t)]
    km = [kc.spec_rhs(ctx, S, pts[c], None if te is None else te[:, c], only_mean=True) for c in range(t)]
    ext = te if te is not None else np.array([])
    slices = [((0, None), list(range(t)))] + [((c, c + 1), [c]) for c in range(t)] if t > 1 else [((0, None), [0])]
    for sl, cols in slices:
        got = S.krige._get_krige_vecs(iso, sl, ext, False)
        _rhs_block_obligations(ctx, S, got, ks, cols, ai, "chunk[%s:%s]." % (sl[0], "" if sl[1] is None else sl[1]), nc)
    got = S.krige._get_krige_vecs(iso, (0, None), ext, True)
    _rhs_block_obligations(ctx, S, got, km, list(range(t)), ai, "only_mean.", nc)


@contract(P, "Krige._get_krige_vecs/textbook-right-hand-side", params=_rhs_params(), functions=FN_VEC, bounded=BND,
          nsamples=2, search=40, max_paths=MAXP_FORK)
@kc.guarded
def krige_vecs(ctx, variant, n, t, dim, exact):
    _rhs_body(ctx, variant, n, t, dim, exact)


@contract(P, "Krige._get_krige_vecs/textbook-right-hand-side(dim3)", params=_rhs_params(True), functions=FN_VEC,
          bounded=BND, nsamples=2, search=40, tiers=("thorough",), max_paths=MAXP_FORK)
@kc.guarded
def krige_vecs3(ctx, variant, n, t, dim, exact):
    _rhs_body(ctx, variant, n, t, dim, exact)


# ---------------------------------------------------------------------------------------
# (3) conditioning vector
# ---------------------------------------------------------------------------------------
COND_PARAMS = [{"variant": v, "norm": nk, "mean": mk, "trend": tk, "dim": d}
               for v in ("simple", "ordinary", "universal", "extdrift", "detrended", "universal+ext")
               for nk in ("none", "LogNormal", "generic")
               for (mk, tk, d) in (("const", "callable", 2), ("callable", "const", 1), ("none", "none", 1),
                                   ("callable", "callable", 2))     # callable mean on an anisotropic, rotated model
               if not (v == "detrended" and (nk != "none" or mk != "none"))
               and not (v in ("ordinary", "universal", "extdrift") and mk != "none" and tk == "const")]


@contract(P, "Krige._krige_cond/normalize(value-trend)-mean,zero-padded", params=COND_PARAMS,
          functions=["krige/base.py:Krige._krige_cond", "krige/base.py:Krige.cond_mean",
                     "krige/base.py:Krige.cond_trend", "tools/misc.py:eval_func"], bounded=BND, nsamples=2, search=40, max_paths=MAXP)
@kc.guarded
def krige_cond(ctx, variant, norm, mean, trend, dim):
    kc.reset()
    n = max(2, kc.min_points(variant, dim))
    S = kc.build(ctx, variant, n, dim, norm=norm, mean=mean, trend=trend)
    got = quiet(lambda: S.krige._krige_cond)
    want = kc.spec_cond(ctx, S)
    ctx.ensure("length=system-size", ctx.shape_eq(got, (S.m,)))
    if np.shape(got) != (S.m,):
        return
    ctx.ensure("entries=normalize(value-trend(x))-mean(x)", ctx.And(*[ctx.eq(got[a], want[a]) for a in range(n)]))
    ctx.ensure("padding(unbiased,drift-rows)=0", ctx.And(*[ctx.eq(got[i], 0) for i in range(n, S.m)]))


# ---------------------------------------------------------------------------------------
# (4) Krige.__call__
# ---------------------------------------------------------------------------------------
def _call_params(thorough=False):
    out = []
    for v in ALLV:
        for dim in ((3,) if thorough else (1, 2)):
            n0 = kc.min_points(v, dim)
            if n0 > 3:
                continue
            for err in ERRS:
                if dim == 2 and err == "scalar" and not thorough:
                    continue
                n = 3 if (thorough or (dim == 2 and err == "nugget")) else max(n0, 2)
                out.append({"variant": v, "n": n, "t": 2, "dim": dim, "err": err})
    return out


def max_using(ctx, v):
    """BY clause for `max(X, 0) >= 0`: no hypotheses, X generalised"""
    if ctx.mode == "conc":
        return {}
    import z3
    t = symrun.lift(v)
    if z3.is_app(t) and t.decl().kind() == z3.Z3_OP_ITE:
        return {"using": [], "generalize": [symrun.SymReal(t.arg(1))]}
    return {}


def raw_call(ctx, S, tp, te, **kw):
    return quiet(S.krige, tp, ext_drift=te, post_process=False, **kw)


def spec_estimate(K, cond, k):
    """cond^T K k  (written with the inner sums q_i = sum_j K_ij k_j)"""
    m = len(k)
    V = np.array([[x] for x in k], dtype=object)
    return dot(cond, [kc.kq(K, V, i, 0) for i in range(m)])


def spec_quadform(K, k):
    m = len(k)
    V = np.array([[x] for x in k], dtype=object)
    return dot(k, [kc.kq(K, V, i, 0) for i in range(m)])


def _rhs_lemmas(ctx, S, kv, ks, pts, ai, tag="", nc=None):
    """entrywise: the right-hand side handed to the kernel = textbook rhs; -> per target formulas"""
    out = []
    for c in range(len(pts)):
        goal = ctx.And(*[ctx.eq(kv[a, c], ks[c][a]) for a in range(S.n)])
        if nc is None or ctx.mode == "conc":
            row = [lemma(ctx, tag + "kernel-input.rhs=textbook-rhs(cov-rows)", goal)]
        else:
            row = [lemma(ctx, tag + "kernel-input.rhs=textbook-rhs(cov-rows)", goal,
                         using=[nc[c][a][0] for a in range(S.n)] + S.model_req,
                         generalize=[nc[c][a][1] for a in range(S.n)])]
        for j in range(S.n, S.m):
            drift = S.if0 <= j < S.ie0
            kw = drift_using(ctx, S, ai[c]) if drift else {"using": []}
            row.append(lemma(ctx, "%skernel-input.rhs=textbook-rhs%s" % (tag, "(drift-rows)" if drift else "(unbiased,ext-rows)"),
                             ctx.eq(kv[j, c], ks[c][j]), **kw))
        out.append(row)
    return out


def _call_body(ctx, variant, n, t, dim, err):
    kc.reset()
    S = kc.build(ctx, variant, n, dim, err=err, norm="generic", mean="const", trend="callable")
    tp, pts, te = kc.targets(ctx, S, t)
    nc = not_close(ctx, S, pts) if S.exact else None
    ai = aniso_iso_lemma(ctx, S, pts)
    field, var = raw_call(ctx, S, tp, te)
    calls = list(kc.CALLS["kernel"])
    ctx.ensure("one-kernel-call(default-chunk=all-targets)", len(calls) == 1 and
               calls[0]["name"] == "calc_field_krige_and_variance")
    ctx.ensure("kernel-preconditions(C15-requires)", all(c["pre"] for c in calls))
    ctx.ensure("output-shapes", ctx.And(ctx.shape_eq(field, (t,)), ctx.shape_eq(var, (t,))))
    if len(calls) != 1 or np.shape(field) != (t,) or np.shape(var) != (t,):
        return
    kmat, kv, kcond = calls[0]["mat"], calls[0]["vecs"], calls[0]["cond"]
    ctx.ensure("kernel-input.matrix=stored-inverse", ctx.And(ctx.shape_eq(kmat, (S.m, S.m)), ctx.eq(kmat, S.K)))
    cond = kc.spec_cond(ctx, S)
    ctx.ensure("kernel-input.cond=normalize(value-trend)-mean,padded", ctx.And(ctx.shape_eq(kcond, (S.m,)),
                                                                              ctx.eq(kcond, cond)))
    ks = [kc.spec_rhs(ctx, S, pts[c], None if te is None else te[:, c]) for c in range(t)]
    ctx.ensure("kernel-input.rhs-shape", ctx.shape_eq(kv, (S.m, t)))
    if np.shape(kv) != (S.m, t) or np.shape(kcond) != (S.m,) or np.shape(kmat) != (S.m, S.m):
        return
    R = _rhs_lemmas(ctx, S, kv, ks, pts, ai, nc=nc)
    sill = S.model.var + S.model.nugget
    for c in range(t):
        gen = terms([kv[j, c] for j in range(S.m)]) + terms(kcond)
        est = spec_estimate(S.K, cond, ks[c])
        qf = spec_quadform(S.K, ks[c])
        gen2 = gen + terms(ks[c]) + terms(cond)
        ctx.ensure("field(raw)=cond^T.K.k", ctx.eq(field[c], est), using=R[c] + [ctx.eq(kcond, cond)],
                   generalize=gen2 if ctx.mode == "sym" else None)
        ctx.ensure("krige_var=max(sill-k^T.K.k,0)", ctx.eq(var[c], ctx.m.max(sill - qf, 0)), using=R[c],
                   generalize=gen2 if ctx.mode == "sym" else None)
        ctx.ensure("krige_var>=0", ctx.ge(var[c], 0), **max_using(ctx, var[c]))
    ctx.ensure("stored:field,krige_var", ctx.And(ctx.eq(S.krige.field, field), ctx.eq(S.krige.krige_var, var),
                                                  ctx.eq(S.krige["field"], field)))
    # variants of the call on the same (unchanged) set-up
    f2 = raw_call(ctx, S, tp, te, return_var=False)
    ctx.ensure("return_var=False:same-field,no-variance", ctx.And(ctx.shape_eq(f2, (t,)), ctx.eq(f2, field)))
    ctx.ensure("return_var=False:kernel=calc_field_krige", kc.CALLS["kernel"][-1]["name"] == "calc_field_krige"
               and all(c["pre"] for c in kc.CALLS["kernel"]))
    n0 = len(kc.CALLS["kernel"])
    f3, v3 = raw_call(ctx, S, tp, te, chunk_size=1)
    ctx.ensure("chunk_size=1:one-kernel-call-per-target", len(kc.CALLS["kernel"]) - n0 == t)
    ctx.ensure("chunk_size=1:identical-field-and-variance", ctx.And(ctx.eq(f3, field), ctx.eq(v3, var)))
    # post-processing: Krige uses the Field pipeline  trend + denormalize(mean + raw)   (C18)
    f4, v4 = quiet(S.krige, tp, ext_drift=te)
    for c in range(t):
        ctx.ensure("post-processed-field=trend+denormalize(mean+raw)",
                   ctx.eq(f4[c], S.trend_at(pts[c]) + S.dn(S.mean_at(pts[c]) + field[c])))
    ctx.ensure("variance-not-post-processed", ctx.eq(v4, var))


@contract(P, "Krige.__call__/estimate-and-variance", params=_call_params(), functions=FN_CALL, bounded=BND,
          nsamples=2, search=40, max_paths=MAXP)
@kc.guarded
def krige_call(ctx, variant, n, t, dim, err):
    _call_body(ctx, variant, n, t, dim, err)


@contract(P, "Krige.__call__/estimate-and-variance(dim3)", params=_call_params(True), functions=FN_CALL,
          bounded=BND, nsamples=2, search=40, tiers=("thorough",), max_paths=MAXP)
@kc.guarded
def krige_call3(ctx, variant, n, t, dim, err):
    _call_body(ctx, variant, n, t, dim, err)


@contract(P, "Krige.__call__[chunk_size]/every-chunk-size-gives-the-unchunked-result",
          params=[{"variant": v, "t": t, "chunk": c} for v in ("simple", "extdrift")
                  for t, cs in ((3, (2, 3, 4)), (5, (2, 3, 4))) for c in cs],
          functions=FN_CALL, bounded="2 conditioning points, 3 or 5 targets, 1-D; chunk sizes that divide, do not divide and "
                                     "exceed the number of targets", nsamples=2, search=20, max_paths=MAXP)
@kc.guarded
def krige_chunks(ctx, variant, t, chunk):
    """chunk_size only limits memory: every target point is kriged exactly once, in ceil(t / chunk) kernel calls,
    and field and variance equal those of the call with the default (all targets at once)"""
    kc.reset()
    S = kc.build(ctx, variant, 2, 1)
    tp, pts, te = kc.targets(ctx, S, t)
    field, var = raw_call(ctx, S, tp, te)
    n0 = len(kc.CALLS["kernel"])
    f2, v2 = raw_call(ctx, S, tp, te, chunk_size=chunk)
    calls = kc.CALLS["kernel"][n0:]
    ctx.ensure("kernel-calls=ceil(targets/chunk_size);targets-per-call<=chunk_size",
               len(calls) == -(-t // chunk) and all(np.shape(c["vecs"])[1] <= chunk for c in calls)
               and sum(np.shape(c["vecs"])[1] for c in calls) == t)
    ctx.ensure("output-shapes", ctx.And(ctx.shape_eq(f2, (t,)), ctx.shape_eq(v2, (t,))))
    ok = all(x is not None and (symrun.is_sym(x) or np.isfinite(float(x))) for x in list(np.asarray(f2, dtype=object)) +
             list(np.asarray(v2, dtype=object)))
    ctx.ensure("every-target-written", ok)
    if ok:
        ctx.ensure("identical-field-and-variance", ctx.And(ctx.eq(f2, field), ctx.eq(v2, var)))
    f3 = raw_call(ctx, S, tp, te, chunk_size=chunk, return_var=False)
    ctx.ensure("return_var=False:identical-field", ctx.eq(f3, field))


@contract(P, "Krige.__call__/structured=unstructured-on-grid,target-order",
          params=[{"variant": v, "dim": d} for v in ("simple", "ordinary", "universal", "extdrift") for d in (1, 2)],
          functions=FN_CALL + ["tools/geometric.py:generate_grid", "tools/geometric.py:format_struct_pos_dim"],
          bounded=BND + "; grids 2 (dim 1) and 2 x 1 (dim 2) points", nsamples=2, search=40, max_paths=MAXP)
@kc.guarded
def krige_mesh(ctx, variant, dim):
    kc.reset()
    n = max(2, kc.min_points(variant, dim))
    S = kc.build(ctx, variant, n, dim, mean="const")
    lens = [2] + [1] * (dim - 1)
    cen = kc.CENTERS[dim]["t"]
    axes = [[ctx.real("g%d_%d" % (d, i), lo=cen[i][d] - 0.3, hi=cen[i][d] + 0.3) for i in range(lens[d])]
            for d in range(dim)]
    T = int(np.prod(lens))
    te = None
    if S.de:
        te = arr(ctx, [[ctx.real("gx%d" % c, lo=-1.0, hi=1.0) for c in range(T)]])
    st_f, st_v = quiet(S.krige.structured, [arr(ctx, a) for a in axes], ext_drift=te)
    ctx.ensure("structured:shape=grid-shape", ctx.And(ctx.shape_eq(st_f, tuple(lens)), ctx.shape_eq(st_v, tuple(lens))))
    grid = np.array(np.meshgrid(*axes, indexing="ij"), dtype=object).reshape(dim, -1)
    grid = arr(ctx, grid.tolist())
    un_f, un_v = quiet(S.krige.unstructured, grid, ext_drift=te)
    ctx.ensure("structured=unstructured-on-expanded-grid(ij-order)",
               ctx.And(ctx.eq(np.reshape(st_f, -1), un_f), ctx.eq(np.reshape(st_v, -1), un_v)))
    # order of the targets: a fresh, identical set-up (same inverse: inv is a function) on the
    # reversed point list returns the reversed results
    S2 = kc.build(ctx, variant, n, dim, like=S, tag="b")
    te2 = None if te is None else te[:, ::-1]
    rv_f, rv_v = quiet(S2.krige.unstructured, grid[:, ::-1], ext_drift=te2)
    ctx.ensure("reversed-targets=>reversed-results", ctx.And(ctx.eq(rv_f[::-1], un_f), ctx.eq(rv_v[::-1], un_v)))
    for c in range(T):
        one_f, one_v = quiet(kc.build(ctx, variant, n, dim, like=S, tag="c%d" % c).krige.unstructured,
                             grid[:, c:c + 1], ext_drift=None if te is None else te[:, c:c + 1])
        ctx.ensure("target-alone=target-in-batch", ctx.And(ctx.eq(one_f[0], un_f[c]), ctx.eq(one_v[0], un_v[c])))


@contract(P, "Krige.get_mean/kriging-the-mean",
          params=[{"variant": v, "norm": nk} for v in ("simple", "ordinary", "universal", "extdrift", "detrended", "ordinary+mean")
                  for nk in ("none", "generic") if not (v == "detrended" and nk != "none")],
          functions=["krige/base.py:Krige.get_mean", "krige/base.py:Krige.__call__", "krige/base.py:Krige.has_const_mean"]
          + FN_VEC, bounded=BND, nsamples=2, search=40, max_paths=MAXP)
@kc.guarded
def krige_mean(ctx, variant, norm):
    """kriging the mean (Wackernagel 2003, ch. 4 / 'Kriging the Mean'): the covariances of the
    right-hand side are set to 0 (target at infinite distance); without drift terms the estimated
    mean is the constant  cond^T K (0,...,0,1)  (ordinary) resp. the given mean (simple)"""
    kc.reset()
    dim = 1
    n = max(2, kc.min_points(variant, dim))
    S = kc.build(ctx, variant, n, dim, norm=norm, mean="const", trend="callable")
    tp, pts, te = kc.targets(ctx, S, 2)
    cond = kc.spec_cond(ctx, S)
    gm_raw = quiet(S.krige.get_mean, post_process=False)
    gm = quiet(S.krige.get_mean)
    mf = quiet(S.krige, tp, ext_drift=te, only_mean=True, post_process=False)
    ctx.ensure("only_mean:returns-field-only,stored-as-mean_field",
               ctx.And(ctx.shape_eq(mf, (2,)), ctx.eq(S.krige["mean_field"], mf), "field" not in S.krige.field_names))
    if np.shape(mf) != (2,):
        return
    if S.di + S.de == 0:
        e_last = [0] * S.n + [1]
        want = spec_estimate(S.K, cond, e_last) if S.unbiased else 0
        ctx.ensure("get_mean(raw)=cond^T.K.(0,..,0,1)(ordinary)|0(simple)", ctx.eq(gm_raw, want))
        ctx.ensure("get_mean()=denormalize(raw+mean)", ctx.eq(gm, S.dn(want + S.mean_at(pts[0]))))
        ctx.ensure("only_mean-field=constant-estimated-mean", ctx.eq(mf, arr(ctx, [want, want])))
    else:
        ctx.ensure("no-constant-mean-with-drift:get_mean()=None", gm is None and gm_raw is None)
        for c in range(2):
            km = kc.spec_rhs(ctx, S, pts[c], None if te is None else te[:, c], only_mean=True)
            ctx.ensure("only_mean-field=cond^T.K.(0,..,0,1,f(x0),e(x0))", ctx.eq(mf[c], spec_estimate(S.K, cond, km)))
    mfp = quiet(S.krige, tp, ext_drift=te, only_mean=True)
    for c in range(2):
        ctx.ensure("only_mean:post-processed=trend+denormalize(mean+raw)",
                   ctx.eq(mfp[c], S.trend_at(pts[c]) + S.dn(S.mean_at(pts[c]) + mf[c])))


# ---------------------------------------------------------------------------------------
# (5) consequences of (1)-(4) and K.A = I
# ---------------------------------------------------------------------------------------
def weights(K, k):
    m = len(k)
    V = np.array([[x] for x in k], dtype=object)
    return [kc.kq(K, V, i, 0) for i in range(m)]


def system_lemmas(ctx, S, k, I, tag=""):
    """with w := K k:  A w = k (row by row, from A.K = I);  -> (w, [row formulas])"""
    m, A, K = S.m, S.A, S.K
    w = weights(K, k)
    gen = (terms(A) + terms(k)) if ctx.mode == "sym" else None
    rows = []
    for i in range(m):
        # A (K k) = (A K) k  is a ring identity; (A K)_il = delta_il
        rows.append(lemma(ctx, "%sdirect-solution:A.(K.k)=k" % tag,
                          ctx.eq(dot([A[i, j] for j in range(m)], w), k[i]), using=I.AK[i], generalize=gen))
    return w, rows


def _cons_params():
    out = []
    for v in ALLV:
        for dim in (1, 2):
            n0 = kc.min_points(v, dim)
            if n0 > 3:
                continue
            out.append({"variant": v, "n": max(n0, 2), "dim": dim})
            if dim == 1 and max(n0, 2) < 3:
                out.append({"variant": v, "n": 3, "dim": dim})
    return out


@contract(P, "kriging-system/estimate=direct-solution,unbiasedness", params=_cons_params(), functions=FN_CALL + FN_MAT,
          bounded=BND, nsamples=2, search=40, timeout=20, max_paths=MAXP)
@kc.guarded
def consequences(ctx, variant, n, dim):
    kc.reset()
    S = kc.build(ctx, variant, n, dim, err="vector", norm="generic", mean="const", trend="callable")
    tp, pts, te = kc.targets(ctx, S, 1)
    ai = aniso_iso_lemma(ctx, S, pts)
    field, var = raw_call(ctx, S, tp, te)
    call = kc.CALLS["kernel"][-1]
    kv, kcond = call["vecs"], call["cond"]
    m, A, K = S.m, S.A, S.K
    k = kc.spec_rhs(ctx, S, pts[0], None if te is None else te[:, 0])
    cond = kc.spec_cond(ctx, S)
    R = _rhs_lemmas(ctx, S, kv, [k], pts, ai)[0]
    C = lemma(ctx, "kernel-input.cond=textbook-cond", ctx.eq(kcond, cond))
    I = kc.inverse_contract(ctx, A, K)
    w, rows = system_lemmas(ctx, S, k, I)
    gen = (terms(A) + terms(k) + terms(cond) + terms(kv) + terms(kcond)) if ctx.mode == "sym" else None
    # uniqueness: any w' with A w' = k is K k:  w' = (K A) w' = K (A w') = K k
    wp = [ctx.real("wprime%d" % i, lo=-1, hi=1) for i in range(m)]
    if ctx.mode == "conc":          # natively: w' := the direct solution of the system
        wp = list(np.linalg.solve(np.asarray(A, dtype=float), np.asarray(k, dtype=float)))
    Awp = [dot([A[j, l] for l in range(m)], wp) for j in range(m)]
    sys_wp = ctx.And(*[ctx.eq(Awp[j], k[j]) for j in range(m)])
    for i in range(m):
        kc.solution_row(ctx, "direct-solution-unique:A.w'=k=>w'=K.k", I, i, wp, k, Awp, premise=sys_wp,
                        gen=gen if ctx.mode == "sym" else ())
    # estimate and variance in terms of the solution of the system
    ctx.ensure("estimate(raw)=cond^T.w,A.w=k", ctx.eq(field[0], dot(cond, w)), using=R + [C], generalize=gen)
    sill = S.model.var + S.model.nugget
    ctx.ensure("variance=max(sill-k^T.w,0),A.w=k", ctx.eq(var[0], ctx.m.max(sill - dot(k, w), 0)), using=R,
               generalize=gen)
    if S.unbiased:
        W = lemma(ctx, "unbiased:weights-sum-to-1", ctx.eq(sum(w[a] for a in range(n)), 1), using=[rows[S.iu]],
                  generalize=gen)
        D = []
        for i in range(S.di):
            D.append(lemma(ctx, "unbiased:sum_b-w_b.f_i(x_b)=f_i(x0)",
                           ctx.eq(dot(w[:n], [S.fspec[i](S.pts[a]) for a in range(n)]), S.fspec[i](pts[0])),
                           using=[rows[S.if0 + i]], generalize=gen))
        for e in range(S.de):
            D.append(lemma(ctx, "unbiased:sum_b-w_b.e_i(x_b)=e_i(x0)",
                           ctx.eq(dot(w[:n], [S.ext[e, a] for a in range(n)]), te[e, 0]),
                           using=[rows[S.ie0 + e]], generalize=gen))
        # data that are a constant plus a combination of the drift functions are reproduced
        beta0 = ctx.real("beta0", lo=-1, hi=1)
        betas = [ctx.real("beta%d" % (i + 1), lo=-1, hi=1) for i in range(S.di + S.de)]

        def drift_at(a):
            fs = [S.fspec[i](S.pts[a] if a is not None else pts[0]) for i in range(S.di)]
            es = [(S.ext[e, a] if a is not None else te[e, 0]) for e in range(S.de)]
            return beta0 + dot(betas, fs + es)
        cdat = [drift_at(a) for a in range(n)] + [0] * (m - n)
        gen3 = (gen + terms(w)) if ctx.mode == "sym" else None
        ctx.ensure("unbiased:constants-and-drift-functions-reproduced(cond=b0+sum-b_i.f_i=>estimate=b0+sum-b_i.f_i(x0))",
                   ctx.eq(dot(cdat, w), drift_at(None)), using=[W] + D, generalize=gen3)


@contract(P, "kriging-system/linear-in-data", params=[{"variant": v, "dim": d} for v in ALLV for d in (1, 2)
                                                      if kc.min_points(v, d) <= 3],
          functions=FN_CALL, bounded=BND, nsamples=2, search=40, max_paths=MAXP)
@kc.guarded
def linearity(ctx, variant, dim):
    """three set-ups that differ only in the data: a, b and alpha a + beta b (no normalizer, mean or
    trend: the data ARE the detrended normalised values).  The matrix does not depend on the data,
    so the three inverses are the same matrix (inv is a function)."""
    kc.reset()
    n = max(2, kc.min_points(variant, dim))
    al, be = ctx.real("alpha", lo=-2, hi=2), ctx.real("beta", lo=-2, hi=2)
    S1 = kc.build(ctx, variant, n, dim, trend="none" if variant != "detrended" else "const")
    va = S1.vals
    vb = [ctx.real("vb%d" % a, lo=-2, hi=2) for a in range(n)]
    if variant == "detrended":        # data = values - trend
        t0 = S1.trend_at(S1.pts[0])
        va = [v - t0 for v in va]
    kw = dict(model=S1.model, cpos=S1.cpos, ext=S1.ext, drift=S1.fdrift)
    if variant == "detrended":
        kw["trend"] = "none"
        variant2 = "simple"
    else:
        variant2 = variant
    S2 = kc.build(ctx, variant2, n, dim, vals=vb, tag="b", **kw)
    S3 = kc.build(ctx, variant2, n, dim, vals=[al * x + be * y for x, y in zip(va, vb)], tag="c", **kw)
    ctx.ensure("matrix-independent-of-data(same-inverse)", ctx.And(ctx.eq(S1.A, S2.A), ctx.eq(S1.A, S3.A),
                                                                    ctx.eq(S1.K, S2.K), ctx.eq(S1.K, S3.K)))
    tp, pts, te = kc.targets(ctx, S1, 1)
    f1, v1 = raw_call(ctx, S1, tp, te)
    f2, v2 = raw_call(ctx, S2, tp, te)
    f3, v3 = raw_call(ctx, S3, tp, te)
    gen = None
    if ctx.mode == "sym":
        gen = terms(kc.CALLS["kernel"][-1]["vecs"])
    ctx.ensure("estimate(alpha.a+beta.b)=alpha.estimate(a)+beta.estimate(b)", ctx.eq(f3[0], al * f1[0] + be * f2[0]),
               using=[], generalize=gen)
    ctx.ensure("variance-independent-of-data", ctx.And(ctx.eq(v1, v2), ctx.eq(v1, v3)))


@contract(P, "kriging-system/order-of-conditioning-points", params=[{"variant": v, "n": n, "dim": 1}
                                                                    for v in ("simple", "ordinary", "extdrift", "universal")
                                                                    for n in (2, 3) if n >= kc.min_points(v, 1)],
          functions=FN_CALL + FN_MAT, bounded=BND + "; one transposition (first and last point)", nsamples=2, search=40,
          timeout=20, max_paths=MAXP)
@kc.guarded
def cond_order(ctx, variant, n, dim):
    """swapping two conditioning points (with their values, errors and drift values) permutes A, k
    and cond consistently (the textbook entries are index-symmetric); with K.A = I and K'.A' = I
    the weights are permuted and the estimate and variance are unchanged"""
    kc.reset()
    S = kc.build(ctx, variant, n, dim, err="vector")
    perm = list(range(n))
    perm[0], perm[-1] = perm[-1], perm[0]
    sig = perm + list(range(n, S.m))            # row sigma(i) of the new system = row i of the old
    S2 = kc.build(ctx, variant, n, dim, err="vector", model=S.model, cpos=S.cpos[:, perm],
                  vals=[S.vals[p] for p in perm], errs=[S.errs[p] for p in perm],
                  ext=None if S.ext is None else S.ext[:, perm], drift=S.fdrift, tag="s")
    m, A, K, A2, K2 = S.m, S.A, S.K, S2.A, S2.K
    tp, pts, te = kc.targets(ctx, S, 1)
    f1, v1 = raw_call(ctx, S, tp, te)
    k1, c1 = kc.CALLS["kernel"][-1]["vecs"][:, 0], kc.CALLS["kernel"][-1]["cond"]
    f2, v2 = raw_call(ctx, S2, tp, te)
    k2, c2 = kc.CALLS["kernel"][-1]["vecs"][:, 0], kc.CALLS["kernel"][-1]["cond"]
    base = kc.assumptions(ctx)
    PA = [[lemma(ctx, "matrix-permuted:A'[s(i),s(j)]=A[i,j]", ctx.eq(A2[sig.index(i), sig.index(j)], A[i, j]), using=base)
           for j in range(m)] for i in range(m)]
    Pk = [lemma(ctx, "rhs-permuted:k'[s(i)]=k[i]", ctx.eq(k2[sig.index(i)], k1[i]), using=base) for i in range(m)]
    Pc = [lemma(ctx, "cond-permuted:cond'[s(i)]=cond[i]", ctx.eq(c2[sig.index(i)], c1[i]), using=base) for i in range(m)]
    I1 = kc.inverse_contract(ctx, A, K)
    I2 = kc.inverse_contract(ctx, A2, K2)
    gen = (terms(A) + terms(A2) + terms(k1) + terms(k2) + terms(c1) + terms(c2)) if ctx.mode == "sym" else []
    w, rows = system_lemmas(ctx, S, list(k1), I1)
    w2 = weights(K2, list(k2))
    gen_w = (gen + terms(w)) if ctx.mode == "sym" else None
    # u := permuted old weights solve the new system:  (A' u)_s(i) = sum_j A_ij w_j = k_i = k'_s(i)
    u = [w[sig[i2]] for i2 in range(m)]         # sig is an involution: new index i2 holds old index sig[i2]
    A2u = [dot([A2[i2, j2] for j2 in range(m)], u) for i2 in range(m)]
    U = []
    for i2 in range(m):
        i = sig[i2]
        U.append(lemma(ctx, "permuted-weights-solve-permuted-system:A'.(P.w)=k'", ctx.eq(A2u[i2], k2[i2]),
                       using=[rows[i], Pk[i]] + [PA[i][sig[j2]] for j2 in range(m)], generalize=gen_w))
    Wp = []
    for i2 in range(m):
        # P.w = (K' A') P.w = K' (A' P.w) = K' k' = w'
        Wp.append(kc.solution_row(ctx, "weights-permuted:P.(K.k)=K'.k'", I2, i2, u, list(k2), A2u, hyps=U, gen=gen))
    gen_w2 = (gen_w + terms(w2)) if ctx.mode == "sym" else None
    ctx.ensure("estimate-unchanged", ctx.eq(f2[0], f1[0]), using=Wp + Pc, generalize=gen_w2)
    ctx.ensure("variance-unchanged", ctx.eq(v2[0], v1[0]), using=Wp + Pk, generalize=gen_w2)


# ---------------------------------------------------------------------------------------
# (7) the estimate is computed with THE model's covariance, also after re-assigning the model
# ---------------------------------------------------------------------------------------
@contract(P, "Krige.model.setter/estimate=fresh-Krige-with-new-model",
          params=[{"variant": v, "how": h} for v in ("simple", "ordinary")
                  for h in ("reassign", "reassign+set_condition", "edit-in-place+reassign-same-object")],
          functions=["field/base.py:Field.model", "krige/base.py:Krige.set_condition", "krige/base.py:Krige.__call__",
                     "krige/base.py:Krige.model"],
          bounded=BND, nsamples=3, search=40, timeout=10, max_paths=MAXP)
@kc.guarded
def model_reassign(ctx, variant, how):
    """results equal the direct solution with the covariance of the model the object HAS: after
    `krige.model = other_model` the estimate must be that of a freshly built Krige with the other
    model (F13); `set_condition()` without arguments is the documented refresh"""
    kc.reset()
    S = kc.build(ctx, variant, 2, 1)
    mod2 = kc.sym_model(ctx, 1, tag="new_")
    tp, pts, te = kc.targets(ctx, S, 1)
    if how == "edit-in-place+reassign-same-object":
        # m = krige.model; m.len_scale = ...; krige.model = m  -- the assigned object compares equal to the stored
        # one (it IS the stored one): the assignment must still refresh the kriging setup
        mo = S.krige.model
        mo.var, mo.len_scale, mo.nugget = mod2.var, mod2.len_scale, mod2.nugget
        S.krige.model = mo
    else:
        S.krige.model = mod2
    if how == "reassign+set_condition":
        quiet(S.krige.set_condition)
    got_f, got_v = raw_call(ctx, S, tp, te)
    F = kc.build(ctx, variant, 2, 1, model=mod2, cpos=S.cpos, vals=S.vals, tag="f")
    want_f, want_v = raw_call(ctx, F, tp, te)
    ctx.ensure("estimate=fresh(new-model)", ctx.eq(got_f, want_f))
    ctx.ensure("variance=fresh(new-model)", ctx.eq(got_v, want_v))


# ---------------------------------------------------------------------------------------
# (7b) the estimate uses THE normalizer / mean / trend the object has, also when they are
#      re-assigned after a first call (history: build, call, assign, [set_condition], call)
# ---------------------------------------------------------------------------------------
SETTINGS = {
    # what: (attribute, old (norm, mean, trend), new setting kind)
    "normalizer:none->generic": ("normalizer", ("none", "const", "const"), "generic"),
    "normalizer:generic->generic2": ("normalizer", ("generic", "const", "callable"), "generic2"),
    "normalizer:generic->LogNormal": ("normalizer", ("generic", "const", "const"), "LogNormal"),
    "normalizer:LogNormal->none": ("normalizer", ("LogNormal", "const", "const"), "none"),
    "mean:const->const": ("mean", ("generic", "const", "callable"), "const"),
    "mean:const->callable": ("mean", ("generic", "const", "const"), "callable"),
    "mean:none->const": ("mean", ("generic", "none", "none"), "const"),
    "trend:const->callable": ("trend", ("generic", "const", "const"), "callable"),
    "trend:callable->const": ("trend", ("generic", "const", "callable"), "const"),
    "trend:none->const": ("trend", ("none", "none", "none"), "const"),
}
SET_PARAMS = [{"variant": v, "what": w, "how": h}
              for v in ("simple", "ordinary", "universal+ext") for w in SETTINGS
              for h in ("assign", "assign+set_condition")
              if not (v == "ordinary" and w.startswith("mean"))]


@contract(P, "Krige.normalizer,mean,trend.setter/estimate=fresh-Krige-with-new-setting", params=SET_PARAMS,
          functions=["krige/base.py:Krige.normalizer", "krige/base.py:Krige.mean", "krige/base.py:Krige.trend",
                     "field/base.py:Field.normalizer", "field/base.py:Field.mean", "field/base.py:Field.trend",
                     "krige/base.py:Krige._krige_cond", "krige/base.py:Krige.set_condition", "krige/base.py:Krige.__call__"],
          bounded=BND, nsamples=3, search=40, timeout=10, max_paths=MAXP)
@kc.guarded
def setting_reassign(ctx, variant, what, how):
    """results use the normalizer / mean / trend the object HAS at the time of the call: after a
    first call and a re-assignment (documented: 'If you have changed any properties in the class,
    you can update the kriging setup by calling set_condition' -- the data pre-processing must not
    need it, with it the result must be the same) estimate and variance equal those of a freshly
    built object with the new setting"""
    kc.reset()
    attr, (norm0, mean0, trend0), new = SETTINGS[what]
    dim = 1
    n = max(2, kc.min_points(variant, dim))
    S = kc.build(ctx, variant, n, dim, norm=norm0, mean=mean0, trend=trend0)
    if new == "LogNormal":      # new normalize range (0, inf): value - trend > 0
        for a in range(n):
            S.val_req.append(ctx.require(ctx.gt(S.vals[a] - S.trend_at(S.pts[a]), 0),
                                         "value - trend in the normalize range of the new normalizer"))
    tp, pts, te = kc.targets(ctx, S, 2)
    quiet(S.krige, tp, ext_drift=te)                     # first call with the old setting
    ov = {}
    if attr == "normalizer":
        narg, nm, dn = kc.normalizer(ctx, new)
        ov["norm"] = (narg, nm, dn, new)
        S.krige.normalizer = narg
    else:
        arg, at = kc.mean_trend(ctx, "new" + attr, new, dim)
        ov[attr] = (arg, at)
        setattr(S.krige, attr, arg)
    if how == "assign+set_condition":
        quiet(S.krige.set_condition)
    F = kc.build(ctx, variant, n, dim, like=S, override=ov, tag="f")
    want_cond = kc.spec_cond(ctx, F)
    got_cond = quiet(lambda: S.krige._krige_cond)
    ctx.ensure("cond-vector=normalize(value-trend)-mean(NEW-setting)", ctx.And(ctx.shape_eq(got_cond, (S.m,)),
                                                                              ctx.eq(got_cond, want_cond)))
    got_f, got_v = quiet(S.krige, tp, ext_drift=te)
    got_r, _ = raw_call(ctx, S, tp, te)
    want_f, want_v = quiet(F.krige, tp, ext_drift=te)
    want_r, _ = raw_call(ctx, F, tp, te)
    ctx.ensure("estimate(raw)=fresh(new-setting)", ctx.eq(got_r, want_r))
    ctx.ensure("estimate(post-processed)=fresh(new-setting)", ctx.eq(got_f, want_f))
    ctx.ensure("variance=fresh(new-setting)", ctx.eq(got_v, want_v))
    for c in range(2):
        ctx.ensure("estimate(post-processed)=trend+denormalize(mean+raw)(NEW-setting)",
                   ctx.eq(got_f[c], F.trend_at(pts[c]) + F.dn(F.mean_at(pts[c]) + got_r[c])))


# ---------------------------------------------------------------------------------------
# (8) set_condition with fit_normalizer / fit_variogram: whatever the fits return, the kriging
#     set-up afterwards is that of the FINAL normalizer and model
# ---------------------------------------------------------------------------------------
def _same_value(ctx, a, b):
    """plain (non-symbolic) settings such as geo_scale"""
    try:
        return float(a) == float(b)
    except TypeError:
        return ctx.mode == "sym" and symrun.lift(a).eq(symrun.lift(b))


class FitEnv:
    """ghosts for the fitting routines (optimisers; their accuracy is C10 / T5 residue):
    * `vario_estimate` (module global of krige/base.py) -> records its arguments, returns symbolic
      bin centres / variogram values;
    * `model.fit_variogram` -> records its arguments and assigns fresh in-bounds var, len_scale,
      nugget and anisotropy ratio to the model (assumed contract of fitting: 'changes the model
      parameters arbitrarily within their bounds');
    * `normalizer.fit` -> kc.normalizer('genericp')."""

    def __init__(self, ctx, dim, start):
        self.ctx, self.dim = ctx, dim
        self.vlog, self.flog = [], []
        U = kc.gc.generic_model_class(ctx)
        env = self
        n0 = len(ctx.path.assume) if ctx.mode == "sym" else 0
        self.new = dict(var=ctx.real("fit_var", lo=0.5, hi=2.0), len_scale=ctx.real("fit_len", lo=0.7, hi=2.0),
                        nugget=ctx.real("fit_nug", lo=0.05, hi=0.5),
                        anis=[ctx.real("fit_anis%d" % i, lo=0.5, hi=2.0) for i in range(dim - 1)])
        ctx.require(ctx.And(ctx.gt(self.new["var"], 0), ctx.gt(self.new["len_scale"], 0), ctx.gt(self.new["nugget"], 0),
                            *[ctx.gt(a, 0) for a in self.new["anis"]]))

        class FitModel(U):
            def fit_variogram(self, x_data, y_data, anis=True, sill=None, **kw):
                env.flog.append({"x": x_data, "y": y_data, "anis": anis, "sill": sill, "kw": kw})
                self.var = env.new["var"]
                self.len_scale = env.new["len_scale"]
                self.nugget = env.new["nugget"]
                self.anis = list(env.new["anis"])
                return {}, None
        self.model = kc.sym_model(ctx, dim, nugget="sym", aniso=(start == "aniso"), cls=FitModel,
                                  anis_not_one=(start == "aniso"))
        self.req = list(ctx.path.assume[n0:]) if ctx.mode == "sym" else []
        self.bins = arr(ctx, [ctx.real("bin%d" % i, lo=0.5 + i, hi=1.0 + i) for i in range(2)])
        self.gamma = arr(ctx, [ctx.real("gam%d" % i, lo=0.2, hi=1.5) for i in range(2)])
        self.dgamma = arr(ctx, [[ctx.real("dgam%d_%d" % (d, i), lo=0.2, hi=1.5) for i in range(2)] for d in range(dim)])

    def vario_estimate(self, *a, **kw):
        self.vlog.append((a, kw))
        return (self.bins, self.dgamma) if "direction" in kw else (self.bins, self.gamma)

    def __enter__(self):
        self._real = kc.kb.vario_estimate
        kc.kb.vario_estimate = self.vario_estimate
        return self

    def __exit__(self, *exc):
        kc.kb.vario_estimate = self._real
        return False


def fitted_setup(ctx, env, variant, n, via, err, tag=""):
    """a Krige object whose set_condition ran with fit_normalizer=True, fit_variogram=True"""
    narg, nm, dn = kc.normalizer(ctx, "genericp")
    ov = {"norm": (narg, nm, dn, "genericp")}
    fit = dict(fit_normalizer=True, fit_variogram=True)
    S = kc.build(ctx, variant, n, env.dim, err=err, model=env.model, mean="const", trend="callable", override=ov,
                 ctor_kw=fit if via == "constructor" else None, tag=tag)
    if via == "set_condition":
        n0 = len(kc.CALLS["inv"])
        quiet(S.krige.set_condition, **fit)
        S.inv_calls = kc.CALLS["inv"][n0:]
    S.A, S.K = S.inv_calls[-1]["A"], S.inv_calls[-1]["K"]
    S.inv_calls = S.inv_calls[-1:]
    if err in ("nugget", "exact"):
        S.errs = [S.model.nugget] * n          # the measurement error is the FINAL model nugget
    S.model_req = env.req
    return S, narg


FIT_PARAMS = [{"variant": v, "start": st, "via": via} for v in ("simple", "ordinary", "universal")
              for st in ("iso", "aniso") for via in ("constructor", "set_condition")]


@contract(P, "Krige.set_condition[fit_normalizer,fit_variogram]/post-state=set-up-of-the-FINAL-model", params=FIT_PARAMS,
          functions=["krige/base.py:Krige.set_condition", "krige/base.py:Krige._get_krige_mat", "krige/base.py:Krige.__init__",
                     "covmodel/base.py:CovModel.is_isotropic", "tools/geometric.py:rotated_main_axes"],
          bounded=BND, nsamples=3, search=40, timeout=15, max_paths=MAXP)
@kc.guarded
def fit_post_state(ctx, variant, start, via):
    """Class invariant of Krige after set_condition: _krige_pos = model.isometrize(cond_pos) and
    _krige_mat = inverse of the textbook matrix, both for the model the object has AFTER the fits;
    plus what is handed to the fitting routines (documented intent of set_condition)."""
    kc.reset()
    dim, n = 2, 3
    env = FitEnv(ctx, dim, start)
    with env:
        start_view = dict(anis=list(env.model.anis), angles=list(env.model.angles), axes=env.model.main_axes())
        S, narg = fitted_setup(ctx, env, variant, n, via, "nugget")
    m = ctx.m
    model = S.model
    # the fitted model is the object's model and carries the values the fit assigned
    ctx.ensure("model=fitted-model", S.krige.model is model and ctx.And(
        ctx.eq(model.var, env.new["var"]), ctx.eq(model.len_scale, env.new["len_scale"]),
        ctx.eq(model.nugget, env.new["nugget"]), ctx.eq(model.anis, arr(ctx, env.new["anis"])),
        ctx.eq(model.angles, arr(ctx, start_view["angles"]))))
    calls = 1
    ctx.ensure("fit-routines-called-once-each", len(type(narg).fit_log) == calls and len(env.vlog) == calls
               and len(env.flog) == calls)
    if not (len(type(narg).fit_log) == calls and len(env.vlog) == calls and len(env.flog) == calls):
        return
    detr = [S.vals[a] - S.trend_at(S.pts[a]) for a in range(n)]
    ctx.ensure("normalizer.fit(data=value-trend)", ctx.And(ctx.shape_eq(type(narg).fit_log[0], (n,)),
                                                           ctx.eq(type(narg).fit_log[0], arr(ctx, detr))))
    ctx.ensure("normalizer-parameter=fitted-value", ctx.eq(narg.lam, narg.lam_fitted))
    # empirical variogram of the normalised (with the FITTED normalizer), detrended, zero-mean data
    (va, vkw) = env.vlog[0]
    field = [S.nm(detr[a]) - S.mean_at(S.pts[a]) for a in range(n)]
    ctx.ensure("vario_estimate(pos=cond_pos,field=normalize(value-trend)-mean)",
               len(va) == 2 and ctx.And(ctx.shape_eq(va[0], (dim, n)), ctx.eq(va[0], S.cpos), ctx.shape_eq(va[1], (n,)),
                                        ctx.eq(va[1], arr(ctx, field))))
    if start == "iso":
        ctx.ensure("isotropic-start-model:isotropic-estimate(latlon,geo_scale-of-the-model)",
                   set(vkw) == {"latlon", "geo_scale"} and bool(vkw["latlon"]) == bool(model.latlon)
                   and _same_value(ctx, vkw["geo_scale"], model.geo_scale))
    else:
        ctx.ensure("anisotropic-start-model:directional-estimate-along-the-model's-main-axes",
                   set(vkw) == {"direction"} and ctx.And(ctx.shape_eq(vkw["direction"], (dim, dim)),
                                                         ctx.eq(vkw["direction"], start_view["axes"])))
    fl = env.flog[0]
    mean_f = sum(field) / n
    ctx.ensure("model.fit_variogram(bins,variogram,sill=data-variance)",
               ctx.And(ctx.eq(fl["x"], env.bins), ctx.eq(fl["y"], env.dgamma if start == "aniso" else env.gamma),
                       ctx.eq(fl["sill"], sum((f - mean_f) * (f - mean_f) for f in field) / n), not fl["kw"],
                       fl["anis"] is True))
    # invariant: conditioning positions isometrised with the FINAL model, matrix of the FINAL model
    kp = S.krige._krige_pos
    ctx.ensure("invariant:_krige_pos=FINAL-model.isometrize(cond_pos)",
               ctx.And(ctx.shape_eq(kp, (dim, n)), ctx.eq(kp, model.isometrize(S.cpos))), using=S.model_req)
    _matrix_obligations(ctx, S, prefix="invariant:FINAL-model:")
    # equivalently: results of a fresh object built with the final model and normalizer, no fitting
    tp, pts, te = kc.targets(ctx, S, 2)
    got_f, got_v = raw_call(ctx, S, tp, te)
    F = kc.build(ctx, variant, n, dim, like=S, tag="f")
    want_f, want_v = raw_call(ctx, F, tp, te)
    ctx.ensure("estimate=fresh-Krige(final-model)", ctx.eq(got_f, want_f))
    ctx.ensure("variance=fresh-Krige(final-model)", ctx.eq(got_v, want_v))


# ---------------------------------------------------------------------------------------
# (9) external drift at the targets: the value at a grid node, whatever the memory layout of the array
# ---------------------------------------------------------------------------------------
@contract(P, "Krige.__call__[ext_drift-on-a-grid]/drift-values-belong-to-grid-nodes-for-every-memory-layout",
          params={"layout": ["C", "F", "transposed-view", "flat-C-order", "nested-list"], "cls": ["ExtDrift", "Krige+drift"]},
          functions=["krige/base.py:Krige._pre_ext_drift", "krige/base.py:Krige.__call__"],
          bounded="native run: 2-D structured 3 x 2 grid, 4 conditioning points, one external drift")
def ext_drift_layout(ctx, layout, cls):
    """`ext_drift`: 'the external drift values at the given positions' -- on a structured mesh the value with index
    (i, j) belongs to the node (x_i, y_j); a Fortran-ordered array or a transposed view holds the same values as its
    C-ordered copy, and the result equals the unstructured call on the node list in C order"""
    import gstools as gs
    from gsvc import symrun as _sr
    with _sr.native():
        m = gs.Gaussian(dim=2, len_scale=2.0, var=1.3, nugget=0.05)
        cpos = [[0.0, 1.0, 3.0, 2.0], [0.5, 2.0, 1.0, 3.0]]
        cval = [1.0, 2.0, 0.5, -0.7]
        cext = [0.1, 0.5, -0.3, 0.8]

        def mk():
            if cls == "ExtDrift":
                return gs.krige.ExtDrift(m, cpos, cval, cext)
            return gs.krige.Krige(m, cpos, cval, drift_functions="linear", ext_drift=cext)
        x, y = np.array([0.5, 1.5, 2.5]), np.array([0.25, 1.25])
        E = np.array([[0.3, -1.2], [2.0, 0.4], [-0.6, 1.1]])       # E[i, j] at (x_i, y_j)
        arg = {"C": np.ascontiguousarray(E), "F": np.asfortranarray(E), "transposed-view": np.array(E.T, order="C").T,
               "flat-C-order": E.reshape(-1).copy(), "nested-list": E.tolist()}[layout]
        f, v = mk()((x, y), mesh_type="structured", ext_drift=arg)
        gx, gy = np.meshgrid(x, y, indexing="ij")
        fu, vu = mk()((gx.reshape(-1), gy.reshape(-1)), ext_drift=E.reshape(-1))
        ok = (np.shape(f) == (3, 2) and bool(np.allclose(np.reshape(f, -1), fu, rtol=1e-10, atol=1e-12))
              and bool(np.allclose(np.reshape(v, -1), vu, rtol=1e-10, atol=1e-12)))
    ctx.ensure("structured-result=unstructured-result-on-the-node-list(C-order)", ok)
