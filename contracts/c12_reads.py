"""C12, pipeline part: after positions have been isometrised (Field.pre_pos / Krige.set_condition),
the generation and kriging code never reads the anisotropy ratios or rotation angles again, except
at the two documented places (Krige._get_krige_vecs -> model.anisometrize for drift functions, which
need original coordinates; Fourier.update for the mode spacing, see C17).  Together with
`field(x) = generator(isometrize(x))` (C11/C01) and the kriging assembly contracts (C05) this gives
"anisotropic, rotated model at x = isotropic computation at the transformed positions".

Back end: the read sets of the frames engine (transitive over self-methods and properties) over the
real ast, re-computed on every run."""
import time

from gsvc import frames
from gsvc.core import Obligation, DISCHARGED, FAILED, ERROR

FORBIDDEN = ("anis", "angles", "_anis", "_angles", "len_scale_vec", "main_axes", "do_rotation",
             "is_isotropic", "pykrige")

# (relpath, qualname, allowed exceptions among forbidden reads)
TARGETS = [
    ("field/generator.py", "RandMeth.__call__", ()),
    ("field/generator.py", "RandMeth.get_nugget", ()),
    ("field/generator.py", "RandMeth.reset_seed", ()),
    ("field/generator.py", "IncomprRandMeth.__call__", ()),
    ("field/generator.py", "Fourier.__call__", ()),
    ("field/generator.py", "Fourier.get_nugget", ()),
    ("field/generator.py", "Fourier.reset_seed", ()),
    ("krige/base.py", "Krige._get_krige_mat", ()),
    ("krige/base.py", "Krige._get_krige_vecs", ("model.anisometrize()",)),
    ("krige/base.py", "Krige._summate", ()),
    ("field/cond_srf.py", "CondSRF.get_scaling", ()),
    ("covmodel/base.py", "CovModel.spectral_rad_pdf", ()),
    ("covmodel/base.py", "CovModel.ln_spectral_rad_pdf", ()),
    ("covmodel/base.py", "CovModel.spectrum", ()),
    ("covmodel/base.py", "CovModel.spectral_density", ()),
    ("covmodel/base.py", "CovModel.dist_func", ()),
    ("covmodel/tools.py", "_init_subclass.variogram", ()),
    ("covmodel/tools.py", "_init_subclass.covariance", ()),
    ("covmodel/tools.py", "_init_subclass.correlation", ()),
    ("covmodel/tools.py", "_init_subclass.correlation_from_cor", ()),
    ("covmodel/base.py", "CovModel.cov_nugget", ()),
    ("covmodel/base.py", "CovModel.vario_nugget", ()),
]
for _cls in ("Gaussian", "Exponential", "Matern", "Integral", "HyperSpherical", "JBessel", "Stable",
             "Rational", "Cubic", "Linear", "Circular", "Spherical", "SuperSpherical"):
    TARGETS.append(("covmodel/models.py", _cls + ".cor", ()))
for _cls in ("Gaussian", "Exponential", "Matern", "Integral", "HyperSpherical", "JBessel"):
    TARGETS.append(("covmodel/models.py", _cls + ".spectral_density", ()))
for _cls in ("Gaussian", "Exponential"):
    TARGETS.append(("covmodel/models.py", _cls + ".spectral_rad_cdf", ()))
    TARGETS.append(("covmodel/models.py", _cls + ".spectral_rad_ppf", ()))

# functions that MUST go through the model's coordinate transformation (positive control and the
# statement that positions are isometrised exactly there)
MUST_READ = [
    ("field/base.py", "Field.pre_pos", "model.isometrize()"),
    ("krige/base.py", "Krige.set_condition", "model.isometrize()"),
]


def _bad(name):
    last = name.split(".")[-1].replace("()", "")
    return last in FORBIDDEN or any(last.startswith(f) for f in ("pykrige",))


def add_read_obligations(rep, prop="C12"):
    for rel, q, allowed in TARGETS:
        oid = "%s/reads/%s:%s/no-anisotropy-or-rotation-read" % (prop, rel, q)
        t0 = time.time()
        try:
            r = set(frames.reads(rel, q))
        except Exception as e:       # function missing / renamed: not a violation, a checker error
            rep.add(Obligation(oid, ERROR, "dataflow", time.time() - t0, "reads() failed: %r" % (e,),
                               functions=["%s:%s" % (rel, q)]))
            continue
        bad = sorted(x for x in r if _bad(x) and x not in allowed)
        if bad:
            rep.add(Obligation(oid, FAILED, "dataflow", time.time() - t0,
                               "reads %s after positions were isometrised" % bad,
                               witness={"function": "%s:%s" % (rel, q), "reads": bad,
                                        "how": "read set of the frames engine over the current source"},
                               functions=["%s:%s" % (rel, q)]))
        else:
            rep.add(Obligation(oid, DISCHARGED, "dataflow", time.time() - t0,
                               "read set: %s" % sorted(x for x in r if x.startswith("model."))[:12],
                               functions=["%s:%s" % (rel, q)]))
    for rel, q, need in MUST_READ:
        oid = "%s/reads/%s:%s/positions-go-through-%s" % (prop, rel, q, need.replace("()", ""))
        t0 = time.time()
        try:
            r = set(frames.reads(rel, q))
        except Exception as e:
            rep.add(Obligation(oid, ERROR, "dataflow", time.time() - t0, "reads() failed: %r" % (e,)))
            continue
        ok = need in r
        rep.add(Obligation(oid, DISCHARGED if ok else FAILED, "dataflow", time.time() - t0,
                           "" if ok else "%s not in read set %s" % (need, sorted(r)[:20]),
                           witness=None if ok else {"function": "%s:%s" % (rel, q), "missing": need,
                                                    "how": "read set of the frames engine"},
                           functions=["%s:%s" % (rel, q)]))
    # vacuity canary: the analysis does see anisotropy reads where they exist
    r = set(frames.reads("covmodel/base.py", "CovModel.isometrize"))
    rep.canaries += 1
    if any(_bad(x) for x in r):
        rep.canaries_ok += 1
    rep.trust("frames read-set analysis (gsvc/frames.py): attribute reads through getattr with computed "
              "names and through user callables are not seen")
